"""C04 -- JSON serialize -> parse is the identity for every value and option set (DESIGN.md section 4, C04)."""
import re

from vf import lex
from vf.extract import Source, Unit
from vf.lex import Rule, ExtractionBreak
from vf.pipeline import Group, Replay, ALL_LIB, DEFAULT_CHECKS

ID = 'C04'
LEVEL = 'proof'

HH, CC, SCC = 'src/JSON.hh', 'src/JSON.cc', 'src/Strings.cc'
PARSE = r'JSON JSON::parse\(StringReader& r, bool disable_extensions\)'
SERIALIZE = r'string JSON::serialize\(uint32_t options, size_t indent_level\) const'
ESCAPE = r'string JSON::escape_string\(const string& s, StringEscapeMode mode\)'

VARIANT = ['nullptr_t', 'bool', 'int64_t', 'double', 'string', 'list_type', 'dict_type']
OPTIONS = ['FORMAT', 'HEX_INTEGERS', 'ONE_CHARACTER_TRIVIAL_CONSTANTS', 'SORT_DICT_KEYS', 'HEX_ESCAPE_CODES', 'ESCAPE_CONTROLS_ONLY']
MODES = ['STANDARD', 'HEX', 'CONTROL_ONLY']

# ---------------------------------------------------------------------------------------------------------------------
# exception lowering for the blocks of JSON::parse (DESIGN.md 3.3); the C19 lowering handles one try statement per
# function and no calls in control headers, the string branch has two and the number branch has guarded peeks in conditions
# ---------------------------------------------------------------------------------------------------------------------


def _skip_ws(m, i):
    while i < len(m) and m[i] in ' \t\r\n':
        i += 1
    return i


class Lower(Rule):
    """Exception propagation + try/catch lowering over a rewritten block.

    maythrow: C names of the callees that may set verif_exc.  After every *simple statement* that calls one:
    `if (verif_exc) return RET;` (inside the protected block of a try statement: `goto verif_catch_k;`).  A call in the header
    of `while (C) {B}`: the check is placed at the start of B and behind the loop (the lowered callee returns a zero value, the
    header is then evaluated on it; whichever way it goes the next statement executed is one of the two checks).  A call in the
    header of `if (C) {A} [else {B}]`: at the start of A and of B, or behind A when there is no else.  `else if (C)` with a
    may-throw call in C, `for` headers, do-while: extraction break.
    try { P } catch (const T& [v]) { H } ...  ->  { P' } verif_catch_k: if (!verif_exc) {} else if (C04_CATCHES(verif_exc, EXC_T))
    { verif_exc = 0; H' } ... else { return RET; }   (handlers in source order; throw inside H is already lowered)."""

    def __init__(self, maythrow, ret=''):
        self.maythrow, self.ret = maythrow, ret
        self.pat = 'exception lowering'
        self.count = None

    def _ret(self):
        return 'return %s;' % self.ret if self.ret else 'return;'

    @staticmethod
    def _context(m, pos):
        """('simple', statement_start) | ('ctl', keyword, pos of '(', pos of keyword): where a call at pos sits"""
        s = pos
        depth = 0
        while s > 0:
            c = m[s - 1]
            if c in ')]':
                depth += 1
            elif c in '([':
                if depth == 0:
                    if c == '(':
                        k = s - 2
                        while k >= 0 and m[k] in ' \t\r\n':
                            k -= 1
                        w = re.search(r'(\w+)$', m[:k + 1])
                        if w and w.group(1) in ('if', 'while', 'for', 'switch'):
                            return ('ctl', w.group(1), s - 1, w.start())
                    # an enclosing call or parenthesised sub-expression: keep walking outwards
                else:
                    depth -= 1
            elif c in ';{}' and depth == 0:
                return ('simple', s)
            s -= 1
        return ('simple', 0)

    def _prop(self, seg, action, where, allow_ctl=True):
        """insert `action` after simple statements / around control statements of seg that call a may-throw function"""
        m = lex.mask(seg)
        ins = set()
        for mo in re.finditer(r'\b(%s)\s*\(' % '|'.join(map(re.escape, self.maythrow)), m):
            ctx = self._context(m, mo.start())
            if ctx[0] == 'simple':
                s = ctx[1]
                head = m[s:mo.start()].strip()
                if re.match(r'(do|else|case|default)\b', head):
                    raise ExtractionBreak('%s: may-throw call %s in an unsupported position' % (where, mo.group(1)))
                if re.match(r'return\b', head):
                    continue
                ins.add(self._stmt_end(m, s, where, mo.group(1)) + 1)
                continue
            _, kw, p, kwpos = ctx
            if kw not in ('if', 'while'):
                raise ExtractionBreak('%s: may-throw call %s in a %s header' % (where, mo.group(1), kw))
            if not allow_ctl:
                raise ExtractionBreak('%s: may-throw call %s in a control header inside a try block' % (where, mo.group(1)))
            if kw == 'if' and m[:kwpos].rstrip().endswith('else'):
                raise ExtractionBreak('%s: may-throw call %s in the condition of an else-if' % (where, mo.group(1)))
            if kw == 'while' and m[:kwpos].rstrip().endswith('}') and re.search(r'\bdo\b', m[:kwpos]):
                raise ExtractionBreak('%s: may-throw call %s in a do-while condition' % (where, mo.group(1)))
            pe = lex.match_close(m, p)
            b = _skip_ws(m, pe + 1)
            if b >= len(m) or m[b] != '{':
                raise ExtractionBreak('%s: control statement without braces' % where)
            be = lex.match_close(m, b)
            ins.add(b + 1)
            if kw == 'while':
                ins.add(be + 1)
            else:
                # the rest of the if / else-if / else chain: its conditions are evaluated with the exception in flight, so they
                # must be free of may-throw calls; every block of the chain starts with the check, and so does what follows it
                while True:
                    n = _skip_ws(m, be + 1)
                    if not (m.startswith('else', n) and not (m[n + 4].isalnum() or m[n + 4] == '_')):
                        ins.add(be + 1)
                        break
                    n2 = _skip_ws(m, n + 4)
                    if m[n2] == '{':
                        ins.add(n2 + 1)
                        break
                    if not re.match(r'if\b', m[n2:]):
                        raise ExtractionBreak('%s: malformed else' % where)
                    cp = _skip_ws(m, n2 + 2)
                    cpe = lex.match_close(m, cp)
                    if re.search(r'\b(%s)\s*\(' % '|'.join(map(re.escape, self.maythrow)), m[cp:cpe]):
                        raise ExtractionBreak('%s: may-throw call in a later condition of an if chain whose first condition may throw' % where)
                    b2 = _skip_ws(m, cpe + 1)
                    if m[b2] != '{':
                        raise ExtractionBreak('%s: control statement without braces' % where)
                    ins.add(b2 + 1)
                    be = lex.match_close(m, b2)
        for p in sorted(ins, reverse=True):
            seg = seg[:p] + ' ' + action + seg[p:]
        return seg

    @staticmethod
    def _stmt_end(m, s, where, name):
        depth = 0
        e = s
        while e < len(m):
            ch = m[e]
            if ch in '([':
                depth += 1
            elif ch in ')]':
                depth -= 1
            elif ch == ';' and depth == 0:
                return e
            elif ch in '{}' and depth == 0:
                break
            e += 1
        raise ExtractionBreak('%s: may-throw call %s is not part of a simple statement' % (where, name))

    def apply(self, text, where=''):
        ret = self._ret()
        lowered_tries = []
        while True:
            m = lex.mask(text)
            mo = re.search(r'\btry\b', m)
            if not mo:
                break
            k = len(lowered_tries) + 1
            t = mo.start()
            b = _skip_ws(m, t + 3)
            if m[b] != '{':
                raise ExtractionBreak('%s: try without block' % where)
            be = lex.match_close(m, b)
            body = text[b + 1:be]
            if re.search(r'\btry\b', lex.mask(body)):
                raise ExtractionBreak('%s: nested try' % where)
            lowered = self._prop(body, 'if (verif_exc) goto verif_catch_%d;' % k, where, allow_ctl=False)
            if lowered == body:
                raise ExtractionBreak('%s: the protected block contains no may-throw call' % where)
            seg = '{ /* protected block */' + lowered + '}\n  verif_catch_%d:\n  if (!verif_exc) { /* completed: no handler runs */ }\n' % k
            p = be + 1
            nh = 0
            catch_all = False
            while True:
                c = _skip_ws(m, p)
                if not re.match(r'catch\b', m[c:]):
                    break
                q = _skip_ws(m, c + 5)
                qe = lex.match_close(m, q)
                h = _skip_ws(m, qe + 1)
                he = lex.match_close(m, h)
                decl = ' '.join(text[q + 1:qe].split())
                htext = self._prop(text[h + 1:he], 'if (verif_exc) %s' % ret, where)
                if catch_all:
                    raise ExtractionBreak('%s: handler after catch (...)' % where)
                if decl == '...':
                    cond, catch_all = '1', True
                else:
                    md = re.fullmatch(r'const (\w+)\s*&\s*(\w+)?', decl)
                    if not md:
                        raise ExtractionBreak('%s: unsupported exception declaration %r' % (where, decl))
                    cond = 'C04_CATCHES(verif_exc, EXC_%s)' % md.group(1)
                seg += '  else if (%s) { verif_exc = 0;%s}\n' % (cond, htext)
                nh += 1
                p = he + 1
            if nh == 0:
                raise ExtractionBreak('%s: try without handlers' % where)
            if not catch_all:
                seg += '  else { %s /* no handler matches: the exception propagates */ }\n' % ret
            lowered_tries.append(seg)
            text = text[:t] + 'VERIF_LOWERED_TRY_%d;' % k + text[p:]
        text = self._prop(text, 'if (verif_exc) %s' % ret, where)
        for k, seg in enumerate(lowered_tries, 1):
            text = text.replace('VERIF_LOWERED_TRY_%d;' % k, seg)
        return text


# reader calls on the reference parameter `r` (default argument of get_s8 made explicit)
def reader_rules():
    return [Rule(r'\br\.get_s8\(\s*\)', 'StringReader_get_s8(r, true)', regex=True),
            Rule(r'\br\.(\w+)\(\s*\)', r'StringReader_\1(r)', regex=True),
            Rule(r'\br\.(\w+)\(', r'StringReader_\1(r, ', regex=True),
            # f(g()) where both may throw: C++ does not call f when g throws
            Rule(r'\bvalue_for_hex_char\(StringReader_get_s8\(r, true\)\)', 'C04_hex_of_next(r)', regex=True)]


READER_MAYTHROW = ['StringReader_get_s8', 'StringReader_pget_s8', 'C04_hex_of_next', 'value_for_hex_char']
CTYPE = [Rule(r'\bisdigit\(', 'C04_isdigit(', regex=True), Rule(r'\bisxdigit\(', 'C04_isxdigit(', regex=True)]


# ---------------------------------------------------------------------------------------------------------------------
# units
# ---------------------------------------------------------------------------------------------------------------------
def reader_prelude(ctx, src):
    """StringReader (shared extraction of C01/C02): the accessors are inlined, not replaced."""
    from props import C03 as c03
    from props import rw_common as rw
    c03.leaf_unit(ctx, src).write()
    core = rw.reader_core(ctx, src)
    core.write()
    rw.tmpl_units(ctx, src)
    rw.writer_core(ctx, src).write()
    ones = rw.oneliners(ctx, src)
    if 'int8_t' not in ones or not any(c == 'StringReader_get_s8' for _, c, _ in ones['int8_t']['fns']):
        raise ExtractionBreak('StringReader::get_s8 is no longer a get<int8_t> one-liner')
    return core


def model_unit(ctx, src):
    """The variant's alternative order, the option / escape-mode enumerators (names are the specification's vocabulary, values
    come from the header), holds_alternative / get -> the JSONV model, the scalar as_* accessors."""
    u = Unit(ctx, 'json_model')
    alts = u.snippet(src, HH, r'std::variant<([^;]*?)>\s*value;', group=1)
    got = [a.strip() for a in alts.split(',')]
    if got != VARIANT:
        raise ExtractionBreak('JSON::value alternatives are %r, the model (stubs/C04_json.h) has %r' % (got, VARIANT))
    body = u.snippet(src, HH, r'enum SerializeOption : uint32_t \{([^{}]*)\};', group=1)
    names = re.findall(r'\b([A-Za-z_]\w*)\s*=', body)
    if sorted(names) != sorted(OPTIONS):
        raise ExtractionBreak('SerializeOption enumerators are %r, the property names %r' % (names, OPTIONS))
    u.raw('enum { %s };' % re.sub(r'\b([A-Za-z_]\w*)(\s*=)', r'SerializeOption_\1\2', ' '.join(body.split())))
    body = u.snippet(src, HH, r'enum class StringEscapeMode \{([^{}]*)\};', group=1)
    names = re.findall(r'\b([A-Za-z_]\w*)\b(?=\s*(?:=|,|$))', body.strip())
    if names != MODES:
        raise ExtractionBreak('StringEscapeMode enumerators are %r, expected %r' % (names, MODES))
    u.raw('enum { %s };' % re.sub(r'\b([A-Za-z_]\w*)\b(?=\s*(?:=|,|$))', r'StringEscapeMode_\1', ' '.join(body.split())))
    u.write(suffix='.h', scan=False)
    return u


ACCESS_RULES = [Rule(r'\bholds_alternative<(\w+)>\(self->value\)', r'JSONV_HOLDS(self, \1)', regex=True),
                Rule(r'::get<(\w+)>\(self->value\)', r'JSONV_GET_\1(self)', regex=True),
                Rule(r'\bself->is_(\w+)\(\)', r'JSON_is_\1(self)', regex=True)]


def access_unit(ctx, src):
    u = Unit(ctx, 'json_access')
    u.raw('#include "stubs/C04_json.h"\n')
    for k in ('bool', 'int', 'float', 'string'):
        u.function(src, HH, r'inline bool is_%s\(\) const' % k, new_header='static inline bool JSON_is_%s(const JSONV* self)' % k,
                   rules=[ACCESS_RULES[0]])
    for k, ty in (('bool', 'bool'), ('int', 'int64_t'), ('float', 'double')):
        u.function(src, CC, r'%s JSON::as_%s\(\) const' % (ty, k), new_header='static inline %s JSON_as_%s(const JSONV* self)' % (ty, k),
                   rules=ACCESS_RULES, ret_zero='0')
    u.function(src, CC, r'const string& JSON::as_string\(\) const', new_header='static inline const vstr* JSON_as_string(const JSONV* self)',
               rules=ACCESS_RULES, ret_zero='0')
    u.write()
    return u


def emit(u, header, text, where, file, rules=None, ret_zero=None, loops=None, nloops=0, desc=''):
    """a piece of source text (already cut) -> C function `header { ... }` through the same rewriting pipeline as Unit.function"""
    body = u._post(text, where, rules, True, ret_zero, loops, nloops)
    u.parts.append(header.rstrip() + '\n' + body + '\n')
    u.functions.append({'file': file, 'cxx_header': desc or where, 'c_header': ' '.join(header.split()), 'line': 0})
    return body


def parse_chain(src):
    """The top-level if / else-if chain of JSON::parse(StringReader&, bool) that dispatches on the first character:
    returns ([(condition text, block text with braces)], else block text, text offset of the tail that starts at condition k)."""
    text = src.text(CC)
    _, fbody, fs, fe = lex.find_def(text, PARSE, 'JSON::parse')
    m = lex.mask(fbody)
    mo = re.search(r'char root_type_ch = r\.get_s8\(false\);', m)
    if not mo:
        raise ExtractionBreak('JSON::parse: `char root_type_ch = r.get_s8(false);` not found')
    i = _skip_ws(m, mo.end())
    arms = []
    starts = []
    if not m.startswith('if', i):
        raise ExtractionBreak('JSON::parse: the dispatch chain does not follow the peek of the first character')
    while True:
        starts.append(i)
        p = _skip_ws(m, i + 2)
        if m[p] != '(':
            raise ExtractionBreak('JSON::parse: malformed dispatch chain')
        pe = lex.match_close(m, p)
        b = _skip_ws(m, pe + 1)
        if m[b] != '{':
            raise ExtractionBreak('JSON::parse: dispatch arm without braces')
        be = lex.match_close(m, b)
        arms.append((fbody[p + 1:pe], fbody[b:be + 1]))
        n = _skip_ws(m, be + 1)
        if not m.startswith('else', n):
            raise ExtractionBreak('JSON::parse: the dispatch chain has no final else')
        n2 = _skip_ws(m, n + 4)
        if m.startswith('if', n2) and not m[n2 + 2].isalnum():
            i = n2
            continue
        if m[n2] != '{':
            raise ExtractionBreak('JSON::parse: malformed final else')
        ee = lex.match_close(m, n2)
        rest = m[ee + 1:].strip()
        if not re.fullmatch(r'return ret;\s*\}', rest):
            raise ExtractionBreak('JSON::parse: unexpected statements after the dispatch chain: %r' % rest[:80])
        return arms, fbody[n2:ee + 1], fbody, starts, ee + 1, mo


SET_RULES = [Rule(r'\bret = ([^;]*\bint_data\b[^;]*);', r'JSONV_set_int(ret, \1);', regex=True),
             Rule(r'\bret = float_data;', 'JSONV_set_float(ret, float_data);', regex=True),
             Rule(r'\bret = move\(data\);', 'JSONV_set_string(ret, data);', regex=True),
             Rule(r'\bret = 0;', 'JSONV_set_null(ret);', regex=True),            # `ret = nullptr;` after the generic nullptr -> 0
             Rule(r'\bret = (true|false);', r'JSONV_set_bool(ret, \1);', regex=True)]
STR_RULES = [Rule(r'\bstring data;', '', regex=True), Rule(r'\bdata\.push_back\(', 'vstr_push_back(data, ', regex=True)]

# loops 5 and 6 of the number branch apply the decimal exponent by repeated multiplication (up to 308 iterations of double
# arithmetic): their effect on the *value* is outside this family (NOT_DECIDED), so they are always abstracted by a loop contract
# that havocs what they assign; everything the obligations of C04 state (extent of the consumed text, int/float kind, integer
# value of exponent-free numerals) is independent of them.
E_LOOP = """
__CPROVER_assigns(e, int_data, float_data)
__CPROVER_loop_invariant(1 == 1)
__CPROVER_decreases(e)
"""

def parse_units(ctx, src):
    arms, else_block, fbody, starts, end, peek = parse_chain(src)
    if len(arms) != 7:
        raise ExtractionBreak('JSON::parse: %d dispatch arms, the table covers 7 ({ [ number string null true false)' % len(arms))
    u = Unit(ctx, 'json_parse')
    u.raw('#include <float.h>\n#include <limits.h>\n#include "stubs/C04_json.h"\n#define C04_CATCHES(x, T) ((x) == (T))   /* handler for out_of_range: the model has no class derived from it */\n')
    u.function(src, SCC, r'uint8_t value_for_hex_char\(char x\)', ret_zero='0')
    u.raw('/* value_for_hex_char(r.get_s8()): the argument is evaluated first; when it throws the function is not called */\n'
          'static inline uint8_t C04_hex_of_next(StringReader* r)\n{ char c = StringReader_get_s8(r, true); if (verif_exc) return 0; return value_for_hex_char(c); }')
    rr = reader_rules()
    # dispatch on the first character: 1 '{'  2 '['  3 number  4 string  0 the constants / error tail
    d = '{ %s\n' % fbody[peek.start():peek.end()]
    for k in range(4):
        cond = arms[k][0]
        if re.search(r'\br\.', cond):
            raise ExtractionBreak('JSON::parse: dispatch condition %d reads from the reader' % (k + 1))
        d += '  if (%s) return %d;\n' % (cond, k + 1)
    d += '  return 0;\n}'
    emit(u, 'int JSON_parse_dispatch(StringReader* r)', d, 'JSON::parse dispatch chain', CC, rules=rr + CTYPE + [Lower(READER_MAYTHROW, '-1')],
         ret_zero='-1', desc=PARSE + ' :: conditions of the dispatch chain on root_type_ch, in order')
    # number branch
    ovf = re.findall(r'\bbool (\w*overflow\w*) = false;', lex.mask(arms[2][1]))
    if len(ovf) > 1:
        raise ExtractionBreak('JSON::parse: more than one overflow flag in the number block: %r' % ovf)
    u.raw('#define C04_DEC_OVF_INV %s' % ('__CPROVER_loop_invariant(!%s)' % ovf[0] if ovf else ''))
    emit(u, 'void JSON_parse_number(StringReader* r, bool disable_extensions, char root_type_ch, JSONV* ret)', arms[2][1],
         'JSON::parse number branch', CC, rules=rr + CTYPE + SET_RULES[:2] + [Lower(READER_MAYTHROW)], ret_zero='',
         loops={1: 'C04_HEX_LOOP(@LOCALS@)', 2: 'C04_DEC_LOOP(@LOCALS@)', 5: E_LOOP, 6: E_LOOP}, nloops=6, desc=PARSE + ' :: number branch')
    # string branch (whole) and the body of its loop
    srules = rr + STR_RULES + SET_RULES[2:3] + [Lower(READER_MAYTHROW)]
    emit(u, 'void JSON_parse_string(StringReader* r, JSONV* ret, vstr* data)', arms[3][1], 'JSON::parse string branch', CC,
         rules=srules, ret_zero='', nloops=1, desc=PARSE + ' :: string branch')
    _, step, _, _ = lex.find_block(arms[3][1], r"while \(r\.get_s8\(false\) != '[^']*'\)", 'string loop')
    emit(u, 'void JSON_parse_string_step(StringReader* r, vstr* data)', step, 'JSON::parse string loop body', CC,
         rules=rr + STR_RULES[1:] + [Lower(READER_MAYTHROW)], ret_zero='', desc=PARSE + ' :: string branch :: loop body')
    # constants: the tail of the chain, verbatim
    tail = '{ ' + fbody[starts[4]:end] + ' }'
    emit(u, 'void JSON_parse_const(StringReader* r, bool disable_extensions, JSONV* ret)', tail, 'JSON::parse constants tail', CC,
         rules=rr + SET_RULES[3:], ret_zero='', desc=PARSE + ' :: null / true / false arms and the final else')
    u.write()
    return u


# ---------------------------------------------------------------------------------------------------------------------
# serializer
# ---------------------------------------------------------------------------------------------------------------------
LIT = r'"(?:\\.|[^"\\])*"'


def parse_format(lit, where):
    """C format string literal (source text, with quotes) -> (prefix literal, width, length modifier, upper) for <prefix>%0<W>[hh|h]X"""
    mo = re.fullmatch(r'"((?:\\.|[^"\\%])*)%(0?)(\d*)(hh|h|)([Xx])"', lit)
    if not mo:
        raise ExtractionBreak('%s: format %s is outside the modelled family <prefix>%%0<W>[hh|h]X' % (where, lit))
    prefix, zero, width, ln, conv = mo.groups()
    if width and not zero:
        raise ExtractionBreak('%s: format %s pads with spaces (not modelled)' % (where, lit))
    return '"%s"' % prefix, int(width or '0'), {'hh': 'C04_LEN_hh', 'h': 'C04_LEN_h', '': 'C04_LEN_none'}[ln], 1 if conv == 'X' else 0


class PrintfHex(Rule):
    """ret += string_printf("<prefix>%0<W>hhX", ch);  ->  C04_printf_hex(ret, "<prefix>", W, len, upper, ch);"""

    def __init__(self):
        self.pat, self.count = 'string_printf hex formats', None

    def apply(self, text, where=''):
        def rep(mo):
            pre, w, ln, up = parse_format(mo.group(1), where)
            pushes = ' '.join('vstr_push_back(ret, %s);' % c for c in c_chars(pre, where))
            return '%s C04_printf_hex(ret, %d, %s, %d, %s);' % (pushes, w, ln, up, mo.group(2))
        return re.sub(r'\bret \+= string_printf\((' + LIT + r'), (\w+)\);', rep, text)


def c_chars(lit, where):
    """characters of a C string literal (source text with quotes) as C character literals"""
    out = []
    i = 1
    while i < len(lit) - 1:
        if lit[i] == '\\':
            mo = re.match(r'\\(x[0-9A-Fa-f]{1,2}|[0-7]{1,3}|.)', lit[i:])
            out.append("'%s'" % mo.group(0))
            i += len(mo.group(0))
        else:
            out.append("'%s'" % ("\\'" if lit[i] == "'" else lit[i]))
            i += 1
    return out


class AppendLit(Rule):
    """ret += "literal";  ->  one vstr_push_back per character of the literal"""

    def __init__(self):
        self.pat, self.count = 'ret += literal', None

    def apply(self, text, where=''):
        new, n = re.subn(r'\bret \+= (' + LIT + r');', lambda mo: ' '.join('vstr_push_back(ret, %s);' % c for c in c_chars(mo.group(1), where)), text)
        if n < 1:
            raise ExtractionBreak('%s: no `ret += "literal"` statement' % where)
        return new


OPT_RULES = [Rule(r'\bSerializeOption::', 'SerializeOption_', regex=True), Rule(r'\bStringEscapeMode::', 'StringEscapeMode_', regex=True),
             Rule(r'\bStringEscapeMode escape_mode;', 'int escape_mode;', regex=True),
             Rule(r'\bself->as_(\w+)\(\)', r'JSON_as_\1(self)', regex=True)]


def serialize_cases(src):
    """switch (type_index) of JSON::serialize -> {label: statements}, plus the statements before the switch"""
    text = src.text(CC)
    _, fbody, _, _ = lex.find_def(text, SERIALIZE, 'JSON::serialize')
    m = lex.mask(fbody)
    mo = re.search(r'size_t type_index = this->value\.index\(\);\s*switch \(type_index\)\s*', m)
    if not mo:
        raise ExtractionBreak('JSON::serialize: `switch (type_index)` over value.index() not found')
    b = mo.end()
    if m[b] != '{':
        raise ExtractionBreak('JSON::serialize: malformed switch')
    be = lex.match_close(m, b)
    if m[be + 1:].strip() != '}':
        raise ExtractionBreak('JSON::serialize: statements after the switch')
    # top-level case labels
    labels = []
    depth = 0
    i = b + 1
    while i < be:
        c = m[i]
        if c in '{(':
            depth += 1
        elif c in '})':
            depth -= 1
        elif depth == 0:
            ml = re.match(r'(case\s+(\d+)|default)\s*:', m[i:])
            if ml and (i == 0 or not (m[i - 1].isalnum() or m[i - 1] == '_')):
                labels.append((ml.group(2) if ml.group(2) is not None else 'default', i, i + ml.end()))
                i += ml.end()
                continue
        i += 1
    cases = {}
    for k, (lab, s, e) in enumerate(labels):
        nxt = labels[k + 1][1] if k + 1 < len(labels) else be
        if lab in cases:
            raise ExtractionBreak('JSON::serialize: duplicate case %s' % lab)
        cases[lab] = fbody[e:nxt]
    pre = fbody[1:mo.start()]
    return cases, pre


def serialize_units(ctx, src):
    cases, pre = serialize_cases(src)
    if sorted(cases) != ['0', '1', '2', '3', '4', '5', '6', 'default']:
        raise ExtractionBreak('JSON::serialize: case labels %r, the table covers 0..6 + default' % sorted(cases))
    u = Unit(ctx, 'json_serialize')
    u.raw('#include "stubs/C04_printf.h"\n')
    HDR = 'void JSON_ser_%s(const JSONV* self, vstr* ret, uint32_t options, size_t indent_level, int escape_mode)'
    D = SERIALIZE + ' :: '
    # the escape mode selected by the options (statements before the switch)
    emit(u, 'int JSON_ser_escape_mode(uint32_t options)', '{' + pre + ' return escape_mode; }', 'JSON::serialize escape mode', CC,
         rules=OPT_RULES[:3], desc=D + 'escape mode selection')
    ret_lit = Rule(r'\breturn ([^;]*?' + LIT + r')\s*;', r'{ C04_assign_lit(ret, \1); return; }', regex=True, count='+')
    # (self-contained scalar arms end in a return on every path: checked by the harness reaching its end with a non-empty text)
    emit(u, HDR % 'null', '{' + cases['0'] + '}', 'JSON::serialize case 0', CC, rules=OPT_RULES + [ret_lit], ret_zero='', desc=D + 'case 0')
    emit(u, HDR % 'bool', '{' + cases['1'] + '}', 'JSON::serialize case 1', CC, rules=OPT_RULES + [ret_lit], ret_zero='', desc=D + 'case 1')
    emit(u, HDR % 'int', '{' + cases['2'] + '}', 'JSON::serialize case 2', CC, ret_zero='', desc=D + 'case 2', rules=OPT_RULES + [
        Rule(r'\breturn ([^;?]*?) \? string_printf\(("[^"%]*)%" PRIX64, ([^;]*?)\) : string_printf\(("[^"%]*)%" PRIX64, ([^;]*?)\);',
             r'{ if (\1) C04_printf_hex64(ret, \2", (uint64_t)(\3)); else C04_printf_hex64(ret, \4", (uint64_t)(\5)); return; }', regex=True, count=1),
        Rule(r'\breturn to_string\(([^;]*)\);', r'{ C04_to_string(ret, \1); return; }', regex=True, count=1)])
    emit(u, HDR % 'float', '{' + cases['3'] + '}', 'JSON::serialize case 3', CC, ret_zero='', desc=D + 'case 3', rules=OPT_RULES + [
        Rule(r'\bstring ret = string_printf\("%g", ([^;]*)\);', r'C04_printf_g(ret, \1);', regex=True, count=1),
        Rule(r'(?<![\w.>])(?:std::|::)?(floor|ceil|trunc|round)\(', r'verif_\1(', regex=True, count=None),
        Rule(r"\bret\.find\(('(?:\\.|[^'\\])*')\) == string::npos", r'C04_find_c(ret, \1) == VSTR_NPOS', regex=True, count='+'),
        Rule(r'\breturn ret \+ (' + LIT + r');', r'{ C04_append_lit(ret, \1); return; }', regex=True),
        Rule(r'\breturn ret;', 'return;', regex=True, count='+')])
    emit(u, HDR % 'string', '{' + cases['4'] + '}', 'JSON::serialize case 4', CC, ret_zero='', desc=D + 'case 4', rules=OPT_RULES + [
        Rule(r'\breturn (' + LIT + r') \+ JSON::escape_string\(([^;]*)\) \+ (' + LIT + r');',
             r'{ C04_assign_lit(ret, \1); JSON_escape_string(ret, \2); C04_append_lit(ret, \3); return; }', regex=True, count=1)])
    return u, cases


class LoopBodyToCall(Rule):
    """for (auto ch : s) BODY  ->  for (index loop) { char ch = s[i]; <ghost>; JSON_escape_char(ret, ch, mode); }
    BODY is emitted as the function JSON_escape_char(ret, ch, mode) from the same source slice (Unit.block); the split is valid
    when BODY mentions no other local of the enclosing function (compile gate of JSON_escape_char) and does not leave the loop."""

    def __init__(self):
        self.pat, self.count = 'range-for body -> call', None

    def apply(self, text, where=''):
        m = lex.mask(text)
        ms = list(re.finditer(r'\bfor \(auto ch : s\)\s*', m))
        if len(ms) != 1:
            raise ExtractionBreak('%s: expected one `for (auto ch : s)` loop' % where)
        b = ms[0].end()
        if m[b] != '{':
            raise ExtractionBreak('%s: loop without braces' % where)
        be = lex.match_close(m, b)
        if re.search(r'\b(return|break|continue|goto)\b', m[b:be]):
            raise ExtractionBreak('%s: the loop body leaves the loop' % where)
        return (text[:ms[0].start()] + 'for (size_t verif_i = 0; verif_i < vstr_size(s); verif_i++) '
                '{ char ch = s->data[verif_i]; C04_ESCAPE_GHOST; JSON_escape_char(ret, ch, mode); }' + text[be + 1:])


def escape_units(ctx, src, u):
    """JSON::escape_string: the body of its loop for one character (JSON_escape_char, own contract) and the function with the
    loop body replaced by a call of that block (loop contract: contracts/C04_string.h)"""
    body_rules = [OPT_RULES[1], PrintfHex(),
                  AppendLit(),
                  Rule(r'\bret \+= ch;', 'vstr_push_back(ret, ch);', regex=True, count='+')]
    u.block(src, CC, ESCAPE, r'for \(auto ch : s\)', new_header='void JSON_escape_char(vstr* ret, char ch, int mode)',
            rules=body_rules + [Rule(r'\A\{', '{ C04_CHAR_GHOST;', regex=True, count=1)])
    u.function(src, CC, ESCAPE, new_header='void JSON_escape_string(vstr* ret, const vstr* s, int mode)',
               rules=[Rule(r'\bstring ret;', 'C04_ESCAPE_INIT;', regex=True, count=1), LoopBodyToCall(),
                      Rule(r'\breturn ret;', 'C04_ESCAPE_END; return;', regex=True, count=1)],
               loops={1: ESCAPE_LOOP}, nloops=1)
    if MODES != ['STANDARD', 'HEX', 'CONTROL_ONLY']:
        raise ExtractionBreak('spec/C04_escape.h numbers the modes STANDARD, HEX, CONTROL_ONLY')


ESCAPE_LOOP = """
__CPROVER_assigns(verif_i, ret->size, __CPROVER_object_from(ret->data + g_base), C04_ESCAPE_GHOSTS)
__CPROVER_loop_invariant(C04_ESCAPE_LOOP_INV(ret, s, verif_i))
__CPROVER_decreases(s->size - verif_i)
"""


# ---------------------------------------------------------------------------------------------------------------------
class CmpCalls(Rule):
    """member calls `self->operator<=>(ARG)` inside the comparison operators: the overload is chosen from the static type of ARG --
    `*VAR` where VAR was declared `const T* VAR = get_if<N>(...)`, `X.c_str()` (const char*), or a parameter of the function."""
    OVL = {'bool': 'JSON_cmp_bool', 'int64_t': 'JSON_cmp_int', 'double': 'JSON_cmp_double', 'string': 'JSON_cmp_str', 'vstr': 'JSON_cmp_str',
           'list_type': 'JSON_cmp_list', 'dict_type': 'JSON_cmp_dict', 'JSON': 'JSON_cmp', 'JSONV': 'JSON_cmp'}

    def __init__(self, params=None):
        self.pat, self.params = 'operator<=> overload resolution', params or {}

    def apply(self, text, where=''):
        def type_of(v, pos):
            """static type of variable v at text position pos: its nearest preceding declaration (block scopes re-declare names)"""
            best = None
            for mo in re.finditer(r'\bconst (\w+)\* %s = (JSONV_get_if_([56])\()?' % re.escape(v), text[:pos]):
                best = ('list_type' if mo.group(3) == '5' else 'dict_type') if mo.group(3) else mo.group(1)
            return best or self.params.get(v)

        def rep(mo):
            arg = mo.group(1).strip()
            if re.fullmatch(r'(\w+)(?:\.|->)c_str\(\)', arg):
                return 'JSON_cmp_cstr(self, C04_c_str(%s))' % re.match(r'\w+', arg).group(0)
            m2 = re.fullmatch(r'\*(\w+)', arg)
            v = m2.group(1) if m2 else arg
            t = type_of(v, mo.start())
            if t not in self.OVL:
                raise ExtractionBreak('%s: cannot resolve operator<=>(%s)' % (where, arg))
            by_ptr = t in ('string', 'vstr', 'list_type', 'dict_type', 'JSON', 'JSONV')
            return '%s(self, %s)' % (self.OVL[t], v if by_ptr else ('*' + v if m2 else arg))
        return re.sub(r'\bself->operator<=>\(([^;()]*(?:\([^()]*\))?[^;()]*)\)', rep, text)


def compare_unit(ctx, src):
    """JSON::operator<=> (all scalar overloads, the dispatch on the other value's alternative) and operator==(T)."""
    u = Unit(ctx, 'json_compare')
    PO = [Rule(r'\bpartial_ordering::(\w+)', r'PO_\1', count=None, regex=True),
          Rule(r'\b(?:const )?(?:auto|nullptr_t|bool|int64_t|double)\* (\w+) = (?:::)?get_if<(\d)>\(&(self|other)(?:->|\.)value\);',
               lambda mo: 'const %s* %s = JSONV_get_if_%s(%s);' % ({'0': 'int', '1': 'bool', '2': 'int64_t', '3': 'double'}[mo.group(2)], mo.group(1), mo.group(2), mo.group(3)), count=None, regex=True),
          Rule(r'\bconst string\* (\w+) = (?:::)?get_if<4>\(&(self|other)(?:->|\.)value\);', r'const vstr* \1 = JSONV_get_if_4(\2);', count=None, regex=True),
          Rule(r'\bconst (list_type|dict_type)\* (\w+) = (?:::)?get_if<([56])>\(&(self|other)(?:->|\.)value\);', r'const JSONV* \2 = JSONV_get_if_\3(\4); /* \1 */', count=None, regex=True),
          Rule(r'(?:::)?get<2>\((self|other)(?:->|\.)value\)', r'(\1->i)', count=None, regex=True),
          Rule(r'(?:::)?get<3>\((self|other)(?:->|\.)value\)', r'(\1->f)', count=None, regex=True),
          Rule(r'\b(self|other)(?:->|\.)value\.index\(\)', r'((size_t)\1->kind)', count=None, regex=True),
          # built-in three-way comparison of two arithmetic operands
          Rule(r'\(?(\*?\w+(?:->\w+)?|\(\w+->[if]\)) <=> (\*?\w+(?:->\w+)?|\(\w+->[if]\))\)?', r'PO_3WAY(\1, \2)', count=None, regex=True)]
    u.raw('#include <stdbool.h>\n#include <stdint.h>\n'
          '/* get_if on the value, alternative N: pointer to the payload when that alternative is held, null otherwise */\n'
          'static int C04_null_payload;\n'
          'static inline const int* JSONV_get_if_0(const JSONV* v) { return v->kind == 0 ? &C04_null_payload : 0; }\n'
          'static inline const bool* JSONV_get_if_1(const JSONV* v) { return v->kind == 1 ? &v->b : 0; }\n'
          'static inline const int64_t* JSONV_get_if_2(const JSONV* v) { return v->kind == 2 ? &v->i : 0; }\n'
          'static inline const double* JSONV_get_if_3(const JSONV* v) { return v->kind == 3 ? &v->f : 0; }\n'
          'static inline const vstr* JSONV_get_if_4(const JSONV* v) { return v->kind == 4 ? &v->s : 0; }\n'
          'static inline const JSONV* JSONV_get_if_5(const JSONV* v) { return v->kind == 5 ? v : 0; }\n'
          'static inline const JSONV* JSONV_get_if_6(const JSONV* v) { return v->kind == 6 ? v : 0; }\n')
    CCJ = 'src/JSON.cc'
    HHJ = 'src/JSON.hh'
    J = r'partial_ordering JSON::operator<=>\('
    u.function(src, CCJ, r'static inline partial_ordering partial_ordering_for_string_compare_result\(int res\)',
               new_header='int partial_ordering_for_string_compare_result(int res)', rules=PO)
    u.function(src, CCJ, J + r'nullptr_t\) const', new_header='int JSON_cmp_null(const JSONV* self)', rules=PO)
    u.function(src, CCJ, J + r'bool v\) const', new_header='int JSON_cmp_bool(const JSONV* self, bool v)', rules=PO)
    u.raw('int JSON_cmp_cstr(const JSONV* self, const char* v);\nint JSON_cmp_str(const JSONV* self, const vstr* v);')
    u.function(src, CCJ, J + r'const char\* v\) const', new_header='int JSON_cmp_cstr(const JSONV* self, const char* v)',
               rules=PO + [Rule(r'(\w+)->compare\(v\)', r'C04_compare_cstr(\1, v)', count=None, regex=True), CmpCalls({'v': 'cstr'})])
    u.function(src, CCJ, J + r'const string& v\) const', new_header='int JSON_cmp_str(const JSONV* self, const vstr* v)',
               rules=PO + [Rule(r'(\w+)->compare\(v\)', r'C04_compare_str(\1, v)', count=None, regex=True),
                           Rule(r'(\w+)->compare\(v\.c_str\(\)\)', r'C04_compare_cstr(\1, C04_c_str(v))', count=None, regex=True), CmpCalls({'v': 'vstr'})])
    for ty, nm in (('int64_t', 'int'), ('double', 'double')):
        u.function(src, HHJ, r'partial_ordering operator<=>\(T v\) const', new_header='int JSON_cmp_%s(const JSONV* self, %s v)' % (nm, ty), rules=PO, scope=r'class JSON')
    u.raw('int JSON_cmp_list(const JSONV* self, const JSONV* other);\nint JSON_cmp_dict(const JSONV* self, const JSONV* other);\nint JSON_cmp(const JSONV* self, const JSONV* other);')
    u.function(src, CCJ, J + r'const JSON& other\) const', new_header='int JSON_cmp(const JSONV* self, const JSONV* other)',
               rules=PO + [CmpCalls()], ret_zero='0')
    u.function(src, HHJ, r'bool operator==\(T v\) const', new_header='bool JSON_eq(const JSONV* self, const JSONV* v)',
               rules=PO + [CmpCalls({'v': 'JSONV'})], scope=r'class JSON')
    u.write()
    return u


def plan(ctx):
    src = Source(ctx.src)
    core = reader_prelude(ctx, src)
    um = model_unit(ctx, src)
    ua = access_unit(ctx, src)
    up = parse_units(ctx, src)
    us, cases = serialize_units(ctx, src)
    escape_units(ctx, src, us)
    us.write()
    arms = parse_chain(src)[0]
    uc = container_units(ctx, src, cases, arms)
    ctx.functions_under_contract = ua.functions + up.functions + us.functions + uc.functions
    D = ['PROP_C01', 'PROP_C02']
    RP = lambda mode, **kw: Replay(driver='C04/json_roundtrip.cc', mode=mode, sources=ALL_LIB, **kw)
    HS = 'harness/C04/scalars.c'
    groups = []
    groups.append(Group(name='JSON.float.syntax', harness=HS, entry='h_float_syntax', function='JSON::serialize case 3 (double) -> JSON::parse number branch',
                        loops=True, defines=list(D), kind='bounded',
                        bound='every string of the %g output grammar (ISO C 7.21.6.1p8, precision 6, finite values): at most 13 characters; loops unwound 16 times',
                        cbmc_flags=['--unwind', '16', '--unwinding-assertions'], min_post=6, timeout=600, stage1=60, engines=['minisat', 'cadical'],
                        checks=[c for c in DEFAULT_CHECKS if c != '--signed-overflow-check'] + ['--no-signed-overflow-check'],
                        clause_note='the float arm of serialize applied to any %g text yields an RFC 8259 number that the number branch consumes entirely, without '
                                    'exception, as a value of the float kind',
                        replay=RP('float_roundtrip')))
    for hexa in (0, 1):
        for mn in (0, 1):
            groups.append(Group(name='JSON.int.roundtrip[%s,%s]' % ('hex' if hexa else 'decimal', 'INT64_MIN' if mn else 'v>INT64_MIN'), harness=HS,
                                entry='h_int_roundtrip', function='JSON::serialize case 2 (int64) -> JSON::parse number branch', loops=True,
                                defines=D + ['C04_INT_HEX=%d' % hexa, 'C04_INT_MIN=%d' % mn, 'C04_INT_LOCKSTEP=1'], kind='loop-contract',
                                cbmc_flags=['--unwind', '21', '--unwinding-assertions'], min_post=7, timeout=600, stage1=60,
                                fallback_unwind=21, replay=RP('int_roundtrip', small_define='VERIF_SMALL'),
                                clause_note='parse(serialize(int v)) == v, int kind, whole text consumed, no exception, no signed overflow / undefined shift on the way; '
                                            'scanner loops under lock-step loop contracts (contracts/C04_number.h)'))
    groups.append(Group(name='JSON.const.roundtrip', clause_note='serialize(null|true|false) under any options is parsed back to the same constant, consumed entirely; without ONE_CHARACTER_TRIVIAL_CONSTANTS it is the RFC 8259 literal name',
                        harness=HS, entry='h_const_roundtrip', function='JSON::serialize case 0/1 -> JSON::parse null/true/false arms',
                        defines=list(D), kind='loop-free', min_post=6, replay=RP('const_roundtrip')))
    HT = 'harness/C04/strings.c'
    groups.append(Group(name='JSON.string.char_lemma', clause_note='harness/C04/strings.c h_char_lemma: group of b is 1..6 bytes, not starting with a quote, == C04_ESC(b, mode), RFC item in STANDARD mode; one parser iteration consumes exactly it and appends b',
                        harness=HT, entry='h_char_lemma', function='JSON::escape_string loop body / JSON::parse string loop body',
                        defines=list(D), kind='loop-free', min_post=8, replay=RP('char_roundtrip')))
    groups.append(Group(name='JSON.escape_string.body', clause_note='contracts/C04_string.h JSON_escape_char: appends exactly C04_ESC(ch, mode); bytes below the old size untouched',
                        harness=HT, entry='h_escape_char', function='JSON::escape_string (loop body, one character)',
                        enforce='JSON_escape_char', defines=list(D), kind='loop-free', min_post=2, timeout=300, replay=RP('char_roundtrip')))
    groups.append(Group(name='JSON.escape_string', clause_note='contracts/C04_string.h JSON_escape_string: group of s[k] at [POS(k), POS(k+1)), POS(0) = old size, POS(n) = new size, for a ghost index k',
                        harness=HT, entry='h_escape_string', function='JSON::escape_string', enforce='JSON_escape_string',
                        replace=['JSON_escape_char'], loops=True, defines=list(D), kind='loop-contract', min_post=5, timeout=600, stage1=30,
                        replay=RP('string_roundtrip', small_define='VERIF_SMALL'), fallback_unwind=10))
    groups.append(Group(name='JSON.string.induction_step', clause_note='one real iteration of the parser string loop at POS(k) over the contract of escape_string: no exception, cursor at POS(k+1), appends s[k], keeps earlier characters',
                        harness=HT, entry='l_string_step', function='JSON::escape_string (contract) / JSON::parse string loop body',
                        replace=['JSON_escape_string'], defines=list(D), kind='lemma', min_post=5, timeout=300))
    groups.append(Group(name='JSON.string.serialize_arm', clause_note='serialize(string) = quote + escape_string(s, mode of the options) + quote; selects the string branch of parse',
                        harness=HT, entry='l_string_arm', function='JSON::serialize case 4 (string)',
                        replace=['JSON_escape_string'], defines=list(D), kind='lemma', min_post=7, timeout=300))
    groups.append(Group(name='JSON.string.roundtrip[len<=2]', harness=HT, entry='h_string_bounded', function='JSON::serialize case 4 -> JSON::parse string branch',
                        defines=D + ['C04_STRMAX=2'], kind='bounded', bound='strings of at most 2 bytes (every byte value, every option set); loops unwound 4 times',
                        cbmc_flags=['--unwind', '4', '--unwinding-assertions'], min_post=5, timeout=600, stage1=60, replay=RP('string_roundtrip')))
    # comparison operators: "a value EQUAL to the original", "copies compare equal to their source"
    ucmp = compare_unit(ctx, src)
    ctx.functions_under_contract += ucmp.functions
    HCMP = 'harness/C04/compare.c'
    SUBS = ['C04_compare_str', 'C04_compare_cstr']
    for entry, fn, cxx, rep in [('po_string', 'partial_ordering_for_string_compare_result', 'partial_ordering_for_string_compare_result', []),
                                ('cmp_null', 'JSON_cmp_null', 'JSON::operator<=>(nullptr_t)', []), ('cmp_bool', 'JSON_cmp_bool', 'JSON::operator<=>(bool)', []),
                                ('cmp_str', 'JSON_cmp_str', 'JSON::operator<=>(const std::string&)', SUBS), ('cmp_cstr', 'JSON_cmp_cstr', 'JSON::operator<=>(const char*)', SUBS),
                                ('cmp_int', 'JSON_cmp_int', 'JSON::operator<=>(T) [T = int64_t]', []), ('cmp_double', 'JSON_cmp_double', 'JSON::operator<=>(T) [T = double]', []),
                                ('cmp', 'JSON_cmp', 'JSON::operator<=>(const JSON&)', SUBS + ['JSON_cmp_list', 'JSON_cmp_dict']),
                                ('eq', 'JSON_eq', 'JSON::operator==(T) [T = const JSON&]', ['JSON_cmp'])]:
        groups.append(Group(name='JSON.compare.' + entry, harness=HCMP, entry='h_' + entry, function=cxx, enforce=fn, replace=rep, kind='loop-free', timeout=300,
                            engines=['minisat', 'cadical'],       # double comparisons: one NaN in the SMT FP theory is enough here, but bit-level engines answer in < 1 s
                            clause_note='contracts/C04_compare.h: ordering of two values by alternative and payload; strings over their full byte sequences '
                                        '(std::string::compare(const std::string&)), never through a C-string view that stops at a NUL',
                            replay=RP('compare')))
    groups.append(Group(name='JSON.compare.lemma[scalar equal to its copy]', harness=HCMP, entry='l_eq_reflexive', function='JSON::operator== (contract)',
                        replace=['JSON_eq'], kind='lemma', min_post=1, engines=['minisat', 'cadical'], replay=RP('compare')))
    # the number branch of the parser under its C05 contract (lock-step RFC 8259 number automaton: extent, int / float kind, integer value,
    # int64 range, and the value of the decimal EXPONENT up to 400): the float clauses of C04 ("same kind", "value to six digits") rest on it
    # as far as they are decidable here -- the mantissa / scaling arithmetic itself is floating point (NOT_DECIDED)
    from props import C05 as c05
    saved_fuc = list(ctx.functions_under_contract)
    for g5 in c05.plan(ctx):
        if g5.name == 'JSON.parse.number':
            g5.name = 'JSON.parse.number[C05 contract]'
            groups.append(g5)
    ctx.functions_under_contract = saved_fuc + [f for f in ctx.functions_under_contract if 'JSON_parse_number' in f.get('c_header', '')]
    HC = 'harness/C04/containers.c'
    AB = D + ['C04_EMIT_ABSTRACT=1']
    groups.append(Group(name='JSON.serialize.list', clause_note='contracts/C04_container.h: the emitted tokens are accepted by the RFC 8259 array automaton, one value per element, children with the parent options, list order',
                        harness=HC, entry='h_ser_list', function='JSON::serialize case 5 (list)', enforce='JSON_ser_list', loops=True,
                        defines=AB + ['C04_DICT=0'], kind='loop-contract', min_post=5, timeout=300, fallback_unwind=6,
                        replay=RP('list_roundtrip', small_define='VERIF_SMALL')))
    groups.append(Group(name='JSON.serialize.dict.add_key', clause_note='contracts/C04_container.h: add_key emits [,] ws "key" : ws value and moves the object automaton from open/after-value to after-value',
                        harness=HC, entry='h_add_key', function='JSON::serialize case 6 (dict), lambda add_key',
                        enforce='JSON_ser_dict_add_key', defines=AB + ['C04_DICT=1'], kind='loop-free', min_post=1, timeout=300))
    groups.append(Group(name='JSON.serialize.dict', clause_note='contracts/C04_container.h: the emitted tokens are accepted by the RFC 8259 object automaton, one member per entry, with and without SORT_DICT_KEYS',
                        harness=HC, entry='h_ser_dict', function='JSON::serialize case 6 (dict)', enforce='JSON_ser_dict',
                        replace=['JSON_ser_dict_add_key'], loops=True, defines=AB + ['C04_DICT=1'], kind='loop-contract', min_post=5, timeout=300, fallback_unwind=6,
                        replay=RP('dict_roundtrip', small_define='VERIF_SMALL')))
    for k, nm in ((0, 'list'), (1, 'dict')):
        groups.append(Group(name='JSON.%s.roundtrip[n<=2]' % nm, harness=HC, entry='h_container_bounded', function='JSON::serialize case %d -> JSON::parse %s branch' % (5 + k, nm),
                            defines=D + ['C04_DICT=%d' % k, 'C04_NMAX=2'], kind='bounded',
                            bound='at most 2 elements, indent_level <= 1, keys of at most 1 plain letter, children abstracted to a one-byte value token; loops unwound 6 times',
                            cbmc_flags=['--unwind', '6', '--unwinding-assertions'], min_post=6, timeout=900, stage1=60, replay=RP('%s_roundtrip' % nm)))
    return groups


EXPLANATION = (
    'Proof per piece, composition by lemma (no whole-parser query). Every piece is cut from src/JSON.cc on every run: the arms of JSON::serialize '
    '(switch cases 0..6, the lambda add_key, the escape-mode selection), JSON::escape_string and its loop body, and from JSON::parse the dispatch '
    'chain, the number branch, the string branch and the body of its loop, the null/true/false tail, the list and dict branches and '
    'skip_whitespace_and_comments; the StringReader accessors are the extraction of C01/C02, inlined. Exceptions are lowered to verif_exc with '
    'propagation after may-throw calls and a structural lowering of the two try/catch blocks. '
    'STRINGS: char lemma (loop-free, every byte x 3 modes: the bytes escape_string emits for b are consumed by exactly one iteration of the '
    'parser\'s string loop, which appends exactly b); contract of the loop body and loop contract of escape_string (string length unbounded: the '
    'output is the contiguous sequence of the groups C04_ESC(s[k], mode)); induction step composed from that contract and the real parser loop '
    'body at an arbitrary index k of a string of any length; string arm lemma (quotes, POS(0), closing quote); bounded end-to-end run for |s| <= 2. '
    'INTEGERS: the decimal and the hexadecimal scanner under lock-step loop contracts (accumulator == value of the consumed prefix of the '
    'canonical numeral of v, numeral = trusted model of to_string / "%" PRIX64), for every int64, INT64_MIN as its own group, signed-overflow and '
    'shift checks ON inside the extracted code. CONSTANTS: loop-free, options symbolic. FLOATS: syntactic, bounded by the %g grammar (<= 13 '
    'characters): text is an RFC 8259 number, consumed entirely by the number branch, float kind. CONTAINERS: list arm, dict arm and add_key '
    'under contract over token emitters with a ghost RFC 8259 array/object acceptor (element count, indentation, child sizes unbounded, options '
    'symbolic: `[` V (`,` V)* `]` / `{` S `:` V ... `}` with optional whitespace, one V per element, children with the parent\'s options, list '
    'order kept); bounded end-to-end run (<= 2 elements) against the real container loops of the parser in both parser modes. '
    'Strict mode (disable_extensions) is required to accept exactly the text produced without the four options that src/JSON.hh documents as '
    'non-standard; every scalar text produced without them is additionally checked against the RFC 8259 grammar written as specification.')
TRUSTED = [
    'stubs/C04_json.h: JSON value model (variant index + payload; the order of the alternatives is read from src/JSON.hh each run), std::string '
    'literal append / find, isdigit / isxdigit ("C" locale), containers abstracted to their element count',
    'stubs/C04_printf.h: per-format models written from ISO C 7.21.6.1: "%0<W>[hh|h]X" of a char argument (format string decomposed from the source '
    'text each run), "%" PRIX64 and std::to_string(int64) as the canonical numeral of the value (decimal digits chosen by the solver, constrained '
    'by their Horner value), "%g" as "some text of the %g output grammar" (no numeric relation)',
    'stubs/C04_libc.h: memcmp with a body for the literal lengths used by skip_if; stubs/C04_emit.h: token emitters + the RFC 8259 array/object acceptor',
    'spec/C04_rfc8259.h (number grammar, string items, literal names of RFC 8259; the %g output language of ISO C), spec/C04_escape.h (cut formula between '
    'escape_string and the parser: proved on both sides, so a mistake in it cannot make the round trip pass wrongly)',
    'props/C04.py Lower: exception propagation and try/catch lowering (structural; handler for out_of_range, rethrown as parse_error); Concat: '
    '`ret += a + b + c` -> one emitter call per term, left to right; LoopBodyToCall: the body of the range-for of escape_string as a callee',
    'contracts/RW_*.h, stubs/vstr.h, stubs/libc.h and the StringReader extraction of props/rw_common.py (C01/C02)',
]
ASSUMPTIONS = [
    'std::string growth succeeds (capacity model; in the abstract container proofs "the text fits in memory" is an assume of the emitters)',
    'a child serialization is never empty (each arm of serialize returns at least one character: shown for every scalar arm and the bracketed containers)',
    'the keys of a dictionary are pairwise distinct (type invariant of unordered_map), so map/unordered_map emplace inserts every member',
    'floats: only texts of the %g grammar for finite values; NaN / infinity are outside the property',
    'string / element counts below 2^44 resp. 2^60 (cbmc object size limit; lemma harnesses allocate at most 2^20 characters)',
]
DROPS = ('std::string results -> vstr out-parameters (escape_string appends to the string it is given); references -> pointers; JSON value -> JSONV model, '
         'holds_alternative / get -> kind test / field; `ret = x` in parse -> JSONV_set_*; range-for -> index loops; the lambda add_key -> a function of its '
         'captures; std::map copy under SORT_DICT_KEYS -> member count; recursive serialize / parse calls -> child tokens; default arguments made explicit; '
         'string_printf / to_string -> per-format models; throw / try / catch -> verif_exc flag; the exponent loops of the number branch are always '
         'abstracted by a loop contract that havocs what they assign; the `default:` arm of serialize (unreachable for a well-formed variant) is not extracted')
NOT_DECIDED = [
    'numeric closeness of a parsed float to the original (six significant digits): floating-point loop arithmetic of the number branch and the '
    'value printf("%g") denotes are outside this family -- only "consumed entirely, float kind, RFC number" is decided, bounded by the %g grammar',
    'the deep copy (std::variant, unique_ptr, unordered_map semantics: nothing of phosg is left after the stubs) and the element-wise comparison loops of '
    'the list / dict overloads of operator<=> (children opaque: contract-only here).  Decided (groups JSON.compare.*): every scalar overload of operator<=>, '
    'the dispatch operator<=>(const JSON&) and operator==(T): values of different alternatives are unordered (int / float compare numerically), same '
    'alternative by payload, strings by std::string::compare over their FULL byte sequences -- the strings themselves are abstracted to the sign of that '
    'comparison and of the comparison with the argument\'s C-string prefix (ghost facts tied by what holds for every pair of strings)',
    'agreement with an independent JSON implementation: replaced by the RFC 8259 grammar as specification; for bytes >= 0x80 STANDARD mode '
    'writes \\u00XX, which RFC 8259 reads as the code point U+00XX -- identifying it with the byte XX is phosg\'s convention',
    're-serialization reproduces the text exactly: follows from determinism of serialize on equal values, not stated as an obligation; key order under '
    'SORT_DICT_KEYS (std::map ordering) is not modelled',
    'the unbounded string theorem parse_string(quote + escape(s) + quote) == s is an induction over the character index whose step, base and closure '
    'are obligations (induction_step, serialize_arm, escape_string, bounded run) but whose induction itself is a meta-argument; the parser\'s string '
    'loop and container loops are exercised as loops only in the bounded runs (their unbounded acceptance is C05\'s obligation)',
    'nested containers: children are opaque value tokens; the recursion is covered by structural induction over the value (argument, not a query)',
    'the exponent value of exponent-form floats and integer overflow of int_data inside the exponent loops (C05, defect #8)',
]
CLAIMED = True
MANIFEST = dict(
    category='proof',
    text=('Per piece, on text cut from src/JSON.cc each run: (strings) for every byte and each of the three escape modes the bytes escape_string emits '
          'are decoded by exactly one iteration of the parser\'s string loop back to that byte; escape_string under a loop contract (unbounded length) '
          'emits the contiguous sequence of those groups; composed induction step at an arbitrary index of an arbitrary string; (integers) the decimal '
          'and hexadecimal scanners under lock-step loop contracts give parse(serialize(v)) == v for every int64 with overflow checks on, INT64_MIN '
          'separately; (constants) null/true/false and the one-character option against the skip_if arms; (floats, bounded by the %g grammar, '
          'syntactic) the float arm yields an RFC 8259 number that the number branch consumes entirely as a float; (containers) list/dict arms and '
          'add_key under contract against a ghost RFC 8259 array/object acceptor for all option sets, unbounded in element count, plus bounded '
          'end-to-end runs against the parser\'s container loops in strict and default mode.'),
    note=('Trusted: cbmc, the answering solver, the extractor and its lowering rules, the value / string / printf / to_string models, the RFC 8259 and '
          '%g grammars written as specification. Bounded (never counted as proved): float syntax (%g texts <= 13 characters = the whole grammar), strings '
          '<= 2 bytes and containers <= 2 elements end to end. Not decided: numeric accuracy of floats, deep copy and the list/dict comparison loops (the scalar comparison operators and the dispatch are under contract), agreement with another '
          'implementation beyond the RFC grammar, the inductions that compose the pieces. Depends on the C05 repairs of JSON::parse for the clauses '
          '"strict mode accepts [] and {}" (C05-1) and "exponent-form numbers parse as floats" (C05-2).'),
    technique=('function and loop contracts (requires/ensures/assigns, loop invariants with ghost indices and lock-step ghost folds) enforced with '
               'goto-instrument --dfcc on mechanically extracted, exception-lowered C text; lemmas over contracts by call replacement; discharged by cbmc '
               '(SAT/SMT portfolio)'),
)


# ---------------------------------------------------------------------------------------------------------------------
# containers: serializer arms as token emitters (stubs/C04_emit.h), parser branches with the recursive parse as a child stub
# ---------------------------------------------------------------------------------------------------------------------
def split_plus(expr):
    """split at top-level '+' (outside parentheses and literals)"""
    m = lex.mask(expr)
    parts, depth, last = [], 0, 0
    for i, c in enumerate(m):
        if c in '([':
            depth += 1
        elif c in ')]':
            depth -= 1
        elif c == '+' and depth == 0 and (i + 1 >= len(m) or m[i + 1] not in '+=') and (i == 0 or m[i - 1] != '+'):
            parts.append(expr[last:i].strip())
            last = i + 1
    parts.append(expr[last:].strip())
    return parts


class Concat(Rule):
    """`ret += T1 + T2 + ...;` and `return ret + T1 + ...;`  ->  one emitter call per term, left to right (operator+ of std::string
    evaluates and appends left to right).  Terms: 'c' | "lit" | string(n, 'c') | X->serialize(args) | X.serialize(args) | a local
    std::string.  `char + literal` as the first two terms would be pointer arithmetic in C++: extraction break."""

    defaults = ('0', '0')             # (options, indent_level) defaults of JSON::serialize; overwritten from the header text on every run

    def __init__(self, child):
        self.child = child            # C expression naming the child in `o->serialize(..)` / `value.serialize(..)`
        self.pat, self.count = 'string concatenation -> emitters', None

    def term(self, t, where):
        if re.fullmatch(r"'(?:\\.|[^'\\])'", t):
            return 'C04_emit_char(ret, %s);' % t, False
        if re.fullmatch(LIT, t):
            return 'C04_emit_lit(ret, %s);' % t, False
        mo = re.fullmatch(r"string\((.*), ('(?:\\.|[^'\\])')\)", t)
        if mo:
            return 'C04_emit_fill(ret, %s, %s);' % (mo.group(1), mo.group(2)), True
        mo = re.fullmatch(r'(\w+)(?:->|\.)serialize\(([^()]*)\)', t)
        if mo:
            args = [a.strip() for a in mo.group(2).split(',') if a.strip()]
            # default arguments, read from the declaration in JSON.hh (Concat.defaults, set by container_units)
            args += list(self.defaults[len(args):])
            if len(args) != 2:
                raise ExtractionBreak('%s: serialize call with %d arguments' % (where, len(args)))
            return 'C04_emit_child(ret, %s, %s, %s);' % (self.child, args[0], args[1]), True
        if re.fullmatch(r'[A-Za-z_]\w*', t) and t != 'ret':
            return 'C04_emit_str(ret, &%s);' % t, True
        raise ExtractionBreak('%s: unsupported term %r in a string concatenation' % (where, t))

    def seq(self, terms, where, lhs_is_string):
        out, kinds = [], []
        for t in terms:
            c, is_str = self.term(t, where)
            out.append(c)
            kinds.append(is_str)
        if not lhs_is_string and len(kinds) >= 2 and not (kinds[0] or kinds[1]):
            raise ExtractionBreak('%s: the first two operands of + are not std::string (pointer arithmetic in C++)' % where)
        return ' '.join(out)

    def apply(self, text, where=''):
        # the other ways of appending to the result string: ret.append(n, 'c'); ret.push_back('c'); ret.append("lit");
        text = re.sub(r"\bret\.append\(([^;()]*(?:\([^;()]*\))?[^;()]*), ('(?:\\.|[^'\\])')\);", r'C04_emit_fill(ret, \1, \2);', text)
        text = re.sub(r"\bret\.push_back\(('(?:\\.|[^'\\])')\);", r'C04_emit_char(ret, \1);', text)
        text = re.sub(r'\bret\.append\((' + LIT + r')\);', r'C04_emit_lit(ret, \1);', text)
        # statements are located on the masked text, so that a ';' or '+' inside a literal is never taken for structure
        while True:
            m = lex.mask(text)
            mo = re.search(r'\b(ret \+= |return ret \+ )', m)
            if not mo:
                return text
            e = m.index(';', mo.end())
            expr = text[mo.end():e]
            if mo.group(1).startswith('return'):
                rep = '{ ' + self.seq(split_plus(expr), where, True) + ' return; }'
            else:
                rep = self.seq(split_plus(expr), where, False)
            text = text[:mo.start()] + rep + text[e + 1:]


CONT_RULES = OPT_RULES + [
    Rule(r'\bconst auto& (list|dict) = JSON_as_(?:list|dict)\(self\);', r'const size_t \1_n = JSON_as_\1_n(self); if (verif_exc) return;', regex=True, count=1),
    Rule(r'\b(list|dict)\.empty\(\)', r'(\1_n == 0)', regex=True, count=1),
    Rule(r'\breturn (' + LIT + r');', r'{ C04_emit_assign(ret, \1); return; }', regex=True, count=1),
    Rule(r'\bstring ret = (' + LIT + r');', r'C04_emit_assign(ret, \1);', regex=True, count=1),
    Rule(r'\bret\.size\(\)', 'vstr_size(ret)', regex=True)]
LIST_LOOP = """
__CPROVER_assigns(verif_i, ret->size, C04_EMIT_GHOSTS)
__CPROVER_loop_invariant(C04_MEMBER_LOOP_INV(ret, verif_i, list_n))
__CPROVER_decreases(list_n - verif_i)
"""
DICT_LOOP = LIST_LOOP.replace('list_n', 'VERIF_N')
SORT_LOOP = """
__CPROVER_assigns(verif_i, sorted_n)
__CPROVER_loop_invariant(verif_i <= dict_n && sorted_n == verif_i)
__CPROVER_decreases(dict_n - verif_i)
"""


def container_units(ctx, src, cases, arms):
    u = Unit(ctx, 'json_containers')
    mo = re.search(r'\bserialize\(uint32_t options = ([^,()]+), size_t indent_level = ([^,()]+)\) const;', src.text(HH))
    if not mo:
        raise ExtractionBreak('%s: declaration `serialize(uint32_t options = .., size_t indent_level = ..) const;` not found' % HH)
    Concat.defaults = (mo.group(1).strip(), mo.group(2).strip())
    u.raw('#include "stubs/C04_emit.h"\n')
    for k in ('list', 'dict'):
        u.function(src, HH, r'inline bool is_%s\(\) const' % k, new_header='static inline bool JSON_is_%s(const JSONV* self)' % k, rules=[ACCESS_RULES[0]])
        u.function(src, CC, r'const JSON::%s_type& JSON::as_%s\(\) const' % (k, k), new_header='static inline size_t JSON_as_%s_n(const JSONV* self)' % k,
                   rules=ACCESS_RULES, ret_zero='0')
    HDR = 'void JSON_ser_%s(const JSONV* self, vstr* ret, uint32_t options, size_t indent_level, int escape_mode)'
    D = SERIALIZE + ' :: '
    # ---- list arm
    emit(u, HDR % 'list', '{' + cases['5'] + '}', 'JSON::serialize case 5', CC, ret_zero='', desc=D + 'case 5', nloops=1, loops={1: LIST_LOOP},
         rules=CONT_RULES + [Rule(r'\bfor \(const unique_ptr<JSON>& o : list\) \{', 'for (size_t verif_i = 0; verif_i < list_n; verif_i++) {', regex=True, count=1),
                             Concat('verif_i')])
    # ---- dict arm: the lambda add_key becomes a function of its captures, the arm calls it once per member
    c6 = cases['6']
    m6 = lex.mask(c6)
    mo = re.search(r'\bauto add_key = \[&\]\(const string& key, const JSON& value\) -> void\s*', m6)
    if not mo or m6[mo.end()] != '{':
        raise ExtractionBreak('JSON::serialize case 6: lambda add_key(const string& key, const JSON& value) not found')
    le = lex.match_close(m6, mo.end())
    tail = _skip_ws(m6, le + 1)
    if m6[tail] != ';':
        raise ExtractionBreak('JSON::serialize case 6: malformed lambda')
    lam = c6[mo.end():le + 1]
    arm = c6[:mo.start()] + c6[tail + 1:]
    CAP = 'vstr* ret, bool format, uint32_t options, size_t indent_level, int escape_mode'
    emit(u, 'void JSON_ser_dict_add_key(%s, const vstr* key, size_t value)' % CAP, lam, 'JSON::serialize add_key', CC, ret_zero='', desc=D + 'case 6 :: lambda add_key',
         rules=[Rule(r'\bret\.size\(\)', 'vstr_size(ret)', regex=True, count='+'),
                Rule(r'\bstring escaped_key = JSON::escape_string\(key, escape_mode\);', 'C04_LOCAL_STRING(escaped_key); C04_escape_key(&escaped_key, key, escape_mode);', regex=True, count=1),
                Concat('value')])
    RANGE = Rule(r'\bfor \(const auto& o : (\w+)\) \{', r'for (size_t verif_i = 0; verif_i < \1_n; verif_i++) {', regex=True, count=3)
    emit(u, HDR % 'dict', '{' + arm + '}', 'JSON::serialize case 6', CC, ret_zero='', desc=D + 'case 6', nloops=3,
         loops={1: SORT_LOOP, 2: DICT_LOOP.replace('VERIF_N', 'sorted_n'), 3: DICT_LOOP.replace('VERIF_N', 'dict_n')},
         rules=CONT_RULES + [RANGE,
                             Rule(r'\bmap<string, JSON\*> sorted;', 'size_t sorted_n = 0;', regex=True, count=1),
                             Rule(r'\bsorted\.emplace\(o\.first, o\.second\.get\(\)\);', 'sorted_n++;', regex=True, count=1),
                             Rule(r'\badd_key\(o\.first, \*o\.second\);', 'JSON_ser_dict_add_key(ret, format, options, indent_level, escape_mode, C04_KEY_OF(self, verif_i), verif_i);', regex=True, count=2),
                             Concat('verif_i')])
    # ---- parser: skip_whitespace_and_comments, list branch, dict branch (the recursive JSON::parse is the child stub of the harness)
    rr = reader_rules()
    u.function(src, CC, r'static void skip_whitespace_and_comments\(StringReader& r, bool disable_extensions\)',
               new_header='static void skip_whitespace_and_comments(StringReader* r, bool disable_extensions)', rules=rr + [Lower(READER_MAYTHROW)], ret_zero='', nloops=1)
    MAY = READER_MAYTHROW + ['C04_parse_child', 'JSON_as_string', 'skip_whitespace_and_comments']
    KEY = [Rule(r'\bkey\.is_(\w+)\(\)', r'JSON_is_\1(&key)', regex=True)]
    emit(u, 'void JSON_parse_list(StringReader* r, bool disable_extensions, JSONV* ret)', arms[1][1], 'JSON::parse list branch', CC, ret_zero='', nloops=1,
         desc=PARSE + ' :: list branch',
         rules=rr + [Rule(r'\bret = JSON::list\(\);', 'JSONV_set_list(ret);', regex=True, count=1),
                     Rule(r'\bret\.emplace_back\(JSON::parse\(r, disable_extensions\)\);', '{ JSONV verif_v; C04_parse_child(r, disable_extensions, &verif_v); JSONV_list_emplace_back(ret, &verif_v); }', regex=True, count=1),
                     Lower(MAY)])
    emit(u, 'void JSON_parse_dict(StringReader* r, bool disable_extensions, JSONV* ret)', arms[0][1], 'JSON::parse dict branch', CC, ret_zero='', nloops=1,
         desc=PARSE + ' :: dict branch',
         rules=rr + KEY + [Rule(r'\bret = JSON::dict\(\);', 'JSONV_set_dict(ret);', regex=True, count=1),
                           Rule(r'\bJSON key = JSON::parse\(r, disable_extensions\);', 'JSONV key; C04_parse_child(r, disable_extensions, &key);', regex=True, count=1),
                           Rule(r'\bret\.emplace\(move\(key\.as_string\(\)\), JSON::parse\(r, disable_extensions\)\);',
                                '{ const vstr* verif_k = JSON_as_string(&key); JSONV verif_v; C04_parse_child(r, disable_extensions, &verif_v); JSONV_dict_emplace(ret, verif_k, &verif_v); }',
                                regex=True, count=1),
                           Lower(MAY)])
    u.write()
    return u
