// Native replay for C08 (split / join / strip / replace / skip helpers): driver <mode> [name=0xHEX ...]
// The counterexamples of the contract proofs live in is_fresh objects (string contents are not visible in the trace; only
// ghost indices, sizes, delimiters and max_splits are).  The driver therefore uses the scalar inputs it is given
// (in_delim, in_max_splits, in_offset, in_allow) and SWEEPS the string contents: all strings up to length SWEEP_LEN over a
// small adversarial alphabet (mode dependent; always contains 'a', the delimiter / a blank, and the NUL byte), comparing
// the real function with a straightforward reference definition.  exit 1 = the real function differs from the reference on
// some input (first difference printed); 0 = no difference; 2 = usage.
#include "replay/common/args.hh"
#include <algorithm>
#include "Strings.hh"
#include <functional>
#include <stdexcept>
using namespace phosg;
using namespace std;

static string show(const string& s) {
  string r = "\"";
  for (unsigned char c : s) { char b[8]; if (c >= 0x20 && c < 0x7F && c != '"' && c != '\\') r += (char)c; else { snprintf(b, sizeof b, "\\x%02X", c); r += b; } }
  return r + "\"";
}
static string show(const vector<string>& v) { string r = "["; for (size_t i = 0; i < v.size(); i++) r += (i ? ", " : "") + show(v[i]); return r + "]"; }

// ---- enumeration of all strings up to length n over an alphabet ------------------------------------------------------------
static bool sweep(const string& alpha, size_t maxlen, const function<bool(const string&)>& f) {
  string s;
  function<bool(size_t)> rec = [&](size_t left) -> bool {
    if (!f(s)) return false;
    if (!left) return true;
    for (char c : alpha) { s.push_back(c); bool ok = rec(left - 1); s.pop_back(); if (!ok) return false; }
    return true;
  };
  return rec(maxlen);
}

// ---- reference definitions ---------------------------------------------------------------------------------------------------
static bool is_ws(char c) { return c == ' ' || c == '\t' || c == '\r' || c == '\n'; }

static vector<string> ref_split(const string& s, char d, size_t max_splits) {
  vector<string> r(1);
  for (char c : s) {
    if (c == d && (!max_splits || r.size() <= max_splits)) r.emplace_back(); else r.back().push_back(c);
  }
  return r;
}
static string ref_join(const vector<string>& v, const string& sep) {
  string r;
  for (size_t i = 0; i < v.size(); i++) { if (i) r += sep; r += v[i]; }
  return r;
}
// bracket / quote aware: ( [ { < open a level closed by their partner, ' and " open a quoted level closed by the same unescaped
// character (backslash escapes the next character inside quotes); brackets are inert inside quotes; a closer that does not
// match the innermost open level is an ordinary character; delimiters count only at nesting depth 0; open levels at the end
// of the input are an error.
struct CtxResult { bool error; vector<string> pieces; };
static CtxResult ref_split_context(const string& s, char d, size_t max_splits) {
  CtxResult R{false, vector<string>(1)};
  string stack; bool esc = false;
  for (char c : s) {
    bool split_here = false;
    if (!esc && !stack.empty() && c == stack.back()) { stack.pop_back(); }
    else {
      bool quoted = !stack.empty() && (stack.back() == '\'' || stack.back() == '"');
      if (esc) esc = false; else if (quoted && c == '\\') esc = true;
      if (!quoted) {
        if (c == '(') stack.push_back(')'); else if (c == '[') stack.push_back(']'); else if (c == '{') stack.push_back('}');
        else if (c == '<') stack.push_back('>'); else if (c == '\'' || c == '"') stack.push_back(c);
        else if (stack.empty() && c == d && (!max_splits || R.pieces.size() <= max_splits)) split_here = true;
      }
    }
    if (split_here) R.pieces.emplace_back(); else R.pieces.back().push_back(c);
  }
  R.error = !stack.empty();
  return R;
}
// shell-style arguments: blanks (space, tab) outside quotes separate arguments; ' and " quote (closed by the same character);
// backslash takes the next character literally (inside and outside quotes), a trailing backslash and an unterminated quote
// are errors.  An argument exists once a character has been written to it.
struct ArgsResult { int error; vector<string> args; };   // error: 0 none, 1 incomplete escape, 2 unterminated quote
static ArgsResult ref_split_args(const string& s, bool nul_is_char) {
  ArgsResult R{0, {}};
  char quote = 0; bool in_arg = false;
  for (size_t z = 0; z < s.size(); z++) {
    char c = s[z]; bool literal = false, emit = false;
    if (quote) { if (c == quote) quote = 0; else if (c == '\\') { if (++z >= s.size()) { R.error = 1; return R; } c = s[z]; literal = emit = true; } else literal = emit = true; }
    else if (c == '"' || c == '\'') quote = c;
    else if (c == '\\') { if (++z >= s.size()) { R.error = 1; return R; } c = s[z]; literal = emit = true; }
    else emit = true;
    if (!emit) continue;
    if (c == 0 && !nul_is_char) continue;
    if (!literal && (c == ' ' || c == '\t')) { in_arg = false; continue; }
    if (!in_arg) { R.args.emplace_back(); in_arg = true; }
    R.args.back().push_back(c);
  }
  if (quote) R.error = 2;
  return R;
}
static string ref_replace_all(const string& s, const string& t, const string& r) {
  string out; size_t p = 0;
  while (p < s.size()) {
    if (p + t.size() <= s.size() && s.compare(p, t.size(), t) == 0) { out += r; p += t.size(); } else out.push_back(s[p++]);
  }
  return out;
}
struct CmtResult { bool unterminated; string text; };
static CmtResult ref_strip_comments(const string& s) {
  CmtResult R{false, ""}; bool in = false;
  for (size_t z = 0; z < s.size();) {
    if (!in && s[z] == '/' && z + 1 < s.size() && s[z + 1] == '*') { in = true; z += 2; }
    else if (in && s[z] == '*' && z + 1 < s.size() && s[z + 1] == '/') { in = false; z += 2; }
    else { if (!in || s[z] == '\n') R.text.push_back(s[z]); z++; }
  }
  R.unterminated = in;
  return R;
}

#define DIFF(...) do { printf("POSTCONDITION VIOLATED on the real code: "); printf(__VA_ARGS__); printf("\n"); return false; } while (0)

int main(int argc, char** argv) {
  Args A(argc, argv);
  const string& m = A.mode;
  char delim = A.has("in_delim") ? (char)A.u("in_delim") : ',';
  if (delim == 'a') delim = ',';
  size_t L = A.u("sweep_len", 6);
  bool ok = true;
  string alpha = string("a") + delim + " " + string(1, '\0');
  vector<size_t> maxes = {0, 1, 2, 3};
  if (A.has("in_max_splits") && A.u("in_max_splits") > 3) maxes.push_back(A.u("in_max_splits"));
  printf("%s: sweep over all strings up to length %zu\n", m.c_str(), L);

  if (m == "string_printf") {
    // the formatted text has g_fmt_len characters: check that length and a window of lengths around every power of two
    // (internal buffer sizes), comparing with the text itself
    vector<size_t> lens; size_t want = A.u("g_fmt_len");
    if (want < (1u << 22)) lens.push_back(want);
    for (size_t p2 = 1; p2 <= (1u << 16); p2 <<= 1) for (size_t d = 0; d < 3; d++) { if (p2 + d >= 1) lens.push_back(p2 + d - 1); }
    for (size_t n : lens) {
      string text(n, 'x'); for (size_t i = 0; i < n; i++) text[i] = (char)('a' + (i * 7) % 26);
      string got = string_printf("%s", text.c_str());
      if (got != text) { printf("POSTCONDITION VIOLATED on the real code: string_printf(\"%%s\", <%zu chars>) returned %zu chars, first difference at %zu\n", n, got.size(),
            (size_t)(std::mismatch(got.begin(), got.end(), text.begin(), text.end()).first - got.begin())); return 1; }
    }
    printf("holds on these lengths\n"); return 0;
  }
  if (m == "split" || m == "lemma_join_split") {
    ok = sweep(alpha + "b", L, [&](const string& s) {
      for (size_t mx : maxes) {
        vector<string> got = split(s, delim, mx), want = ref_split(s, delim, mx);
        if (m == "split" && got != want) DIFF("split(%s, '%c', %zu) = %s, reference %s", show(s).c_str(), delim, mx, show(got).c_str(), show(want).c_str());
        if (m != "split") { string j = join(got, delim); if (j != s) DIFF("join(split(%s, '%c', %zu), '%c') = %s", show(s).c_str(), delim, mx, delim, show(j).c_str()); }
      }
      return true; });
  } else if (m == "split_w") {
    // the std::wstring overload against the same reference (characters widened)
    ok = sweep(alpha + "b", L, [&](const string& s) {
      wstring ws(s.begin(), s.end());
      for (size_t mx : maxes) {
        vector<wstring> gotw = split(ws, (wchar_t)delim, mx);
        vector<string> got, want = ref_split(s, delim, mx);
        for (const auto& w : gotw) got.emplace_back(w.begin(), w.end());
        if (got != want) DIFF("split(L%s, L'%c', %zu) = %s, reference %s", show(s).c_str(), delim, mx, show(got).c_str(), show(want).c_str());
      }
      return true; });
  } else if (m == "join_delim" || m == "join_plain") {
    // all vectors of up to 3 strings, each up to length 2 over {a, delim}
    vector<string> pool; sweep(string("a") + delim, 2, [&](const string& s) { pool.push_back(s); return true; });
    vector<string> v;
    function<bool(size_t)> rec = [&](size_t left) -> bool {
      string got = m == "join_delim" ? join(v, delim) : join(v), want = ref_join(v, m == "join_delim" ? string(1, delim) : string());
      if (got != want) DIFF("join(%s%s) = %s, reference %s", show(v).c_str(), m == "join_delim" ? (string(", '") + delim + "'").c_str() : "", show(got).c_str(), show(want).c_str());
      if (!left) return true;
      for (auto& p : pool) { v.push_back(p); bool o = rec(left - 1); v.pop_back(); if (!o) return false; }
      return true; };
    ok = rec(3);
  } else if (m == "split_context" || m == "lemma_join_split_context") {
    ok = sweep(string("a") + delim + "()\"\\" + "[", L, [&](const string& s) {
      for (size_t mx : maxes) {
        CtxResult want = ref_split_context(s, delim, mx); vector<string> got; bool threw = false, other = false;
        try { got = split_context(s, delim, mx); } catch (const runtime_error&) { threw = true; } catch (...) { other = true; }
        if (m == "split_context") {
          if (other || threw != want.error) DIFF("split_context(%s, '%c', %zu) %s, reference %s", show(s).c_str(), delim, mx, threw ? "threw runtime_error" : other ? "threw another exception" : "returned", want.error ? "rejects (unbalanced)" : "accepts");
          if (!threw && got != want.pieces) DIFF("split_context(%s, '%c', %zu) = %s, reference %s", show(s).c_str(), delim, mx, show(got).c_str(), show(want.pieces).c_str());
        } else if (!threw && !other) { string j = join(got, delim); if (j != s) DIFF("join(split_context(%s, '%c', %zu), '%c') = %s", show(s).c_str(), delim, mx, delim, show(j).c_str()); }
      }
      return true; });
  } else if (m == "split_args") {
    bool nul_is_char = A.u("nul_is_char", 1) != 0;
    ok = sweep(string("a \"'\\\t") + string(1, '\0'), L, [&](const string& s) {
      ArgsResult want = ref_split_args(s, nul_is_char); vector<string> got; int err = 0; string what;
      try { got = split_args(s); } catch (const runtime_error& e) { what = e.what(); err = what == "incomplete escape sequence" ? 1 : what == "unterminated quoted string" ? 2 : 3; } catch (...) { err = 3; }
      if (err != want.error) DIFF("split_args(%s): error class %d (%s), reference %d", show(s).c_str(), err, what.c_str(), want.error);
      if (!err && got != want.args) DIFF("split_args(%s) = %s, reference %s", show(s).c_str(), show(got).c_str(), show(want.args).c_str());
      return true; });
  } else if (m == "strip_trailing_zeroes" || m == "strip_trailing_whitespace" || m == "strip_leading_whitespace" || m == "strip_whitespace") {
    ok = sweep(string("a \n\t") + string(1, '\0') + "\r", L, [&](const string& s) {
      string got = s, want = s;
      if (m == "strip_trailing_zeroes") { strip_trailing_zeroes(got); while (!want.empty() && want.back() == 0) want.pop_back(); }
      else {
        if (m != "strip_leading_whitespace") while (!want.empty() && is_ws(want.back())) want.pop_back();
        if (m != "strip_trailing_whitespace") { size_t i = 0; while (i < want.size() && is_ws(want[i])) i++; want = want.substr(i); }
        if (m == "strip_trailing_whitespace") strip_trailing_whitespace(got); else if (m == "strip_leading_whitespace") strip_leading_whitespace(got); else strip_whitespace(got);
      }
      if (got != want) DIFF("%s(%s) = %s, reference %s", m.c_str(), show(s).c_str(), show(got).c_str(), show(want).c_str());
      return true; });
  } else if (m == "strip_multiline_comments") {
    ok = sweep(string("a/*\n") + string(1, '\0'), L + 1, [&](const string& s) {
      for (int allow = 0; allow < 2; allow++) {
        CmtResult want = ref_strip_comments(s); string got = s; bool threw = false;
        try { strip_multiline_comments(got, allow != 0); } catch (const runtime_error&) { threw = true; }
        if (threw != (want.unterminated && !allow)) DIFF("strip_multiline_comments(%s, %d) %s", show(s).c_str(), allow, threw ? "threw" : "did not throw");
        if (!threw && got != want.text) DIFF("strip_multiline_comments(%s, %d) = %s, reference %s", show(s).c_str(), allow, show(got).c_str(), show(want.text).c_str());
      }
      return true; });
  } else if (m == "starts_with" || m == "ends_with") {
    ok = sweep(string("ab") + string(1, '\0'), 5, [&](const string& s) {
      return sweep(string("ab") + string(1, '\0'), 3, [&](const string& t) {
        bool want = s.size() >= t.size() && (m == "starts_with" ? equal(t.begin(), t.end(), s.begin()) : equal(t.begin(), t.end(), s.end() - t.size()));
        bool got = m == "starts_with" ? starts_with(s, t) : ends_with(s, t);
        if (got != want) DIFF("%s(%s, %s) = %d, reference %d", m.c_str(), show(s).c_str(), show(t).c_str(), got, want);
        return true; }); });
  } else if (m == "toupper" || m == "tolower") {
    // every byte value at every position of a short string ("C" locale)
    for (int c = 0; c < 256 && ok; c++) for (size_t pos = 0; pos < 3 && ok; pos++) {
      string s = "xYz"; s[pos] = (char)c; string want = s;
      for (char& ch : want) { if (m == "toupper" && ch >= 'a' && ch <= 'z') ch -= 32; if (m == "tolower" && ch >= 'A' && ch <= 'Z') ch += 32; }
      string got = m == "toupper" ? phosg::toupper(s) : phosg::tolower(s);
      if (got != want) { printf("POSTCONDITION VIOLATED on the real code: %s(%s) = %s, reference %s\n", m.c_str(), show(s).c_str(), show(got).c_str(), show(want).c_str()); ok = false; }
    }
    if (ok) { string e; if (!phosg::toupper(e).empty() || !phosg::tolower(e).empty()) ok = false; }
  } else if (m == "str_replace_all") {
    const char* targets[] = {"a", "ab", "aa", "aba"}; const char* repls[] = {"", "a", "ab", "xyz"};
    ok = sweep("abx", L + 1, [&](const string& s) {
      for (auto t : targets) for (auto r : repls) {
        string got = str_replace_all(s, t, r), want = ref_replace_all(s, t, r);
        if (got != want) DIFF("str_replace_all(%s, \"%s\", \"%s\") = %s, reference %s", show(s).c_str(), t, r, show(got).c_str(), show(want).c_str());
      }
      return true; });
  } else if (m == "skip_whitespace" || m == "skip_non_whitespace" || m == "skip_word" || m == "skip_whitespace_c" || m == "skip_non_whitespace_c" || m == "skip_word_c") {
    bool cform = m.size() > 2 && m.substr(m.size() - 2) == "_c";
    string base = cform ? m.substr(0, m.size() - 2) : m;
    // alphabet: a non-blank, the four characters the helpers treat as white space, and the characters isspace() / a locale would add (\v \f, 0xA0)
    ok = sweep(cform ? string("a \n\t\r\v\f\xA0") : string("a \n\t\r\v\f\xA0") + string(1, '\0'), L > 5 ? 5 : L, [&](const string& s) {
      for (size_t off = 0; off <= s.size(); off++) {
        size_t want = off;
        if (base != "skip_whitespace") while (want < s.size() && !is_ws(s[want])) want++;
        if (base != "skip_non_whitespace") while (want < s.size() && is_ws(s[want])) want++;
        size_t got = base == "skip_whitespace" ? (cform ? skip_whitespace(s.c_str(), off) : skip_whitespace(s, off))
                   : base == "skip_non_whitespace" ? (cform ? skip_non_whitespace(s.c_str(), off) : skip_non_whitespace(s, off))
                   : (cform ? skip_word(s.c_str(), off) : skip_word(s, off));
        if (got != want) DIFF("%s(%s, %zu) = %zu, reference %zu", m.c_str(), show(s).c_str(), off, got, want);
      }
      return true; });
  } else {
    fprintf(stderr, "unknown mode %s\n", m.c_str());
    return 2;
  }
  if (ok) printf("no difference found\n");
  return ok ? 0 : 1;
}
