/* C10: MD5 / SHA1 / SHA256 -- one algorithm per compilation (-DC10_ALG=1|2|3 -DC10_UNIT="x_Hash_<alg>.c").
 * The function text (lifted process_block lambda, constructor, bin, hex, bswap32, rotate_right, the constant tables, the
 * byte-order #if of Platform.hh) is the extracted unit. */
#include "contracts/C10_md.h"
#include C10_UNIT

int verif_exc;

#define C10_GHOSTS_FROM_INPUTS                                                \
  size_t in_k, in_j, in_t, in_nblk;                                           \
  uint8_t in_seen;                                                            \
  g_k = in_k;                                                                 \
  g_j = in_j;                                                                 \
  g_t = in_t;                                                                 \
  g_seen = in_seen

/* block function: symbolic incoming chaining value, symbolic block, symbolic ghost indices */
void h_block(void) {
  C10_GHOSTS_FROM_INPUTS;
  uint32_t in_H[8];
  g_H[0] = in_H[0]; g_H[1] = in_H[1]; g_H[2] = in_H[2]; g_H[3] = in_H[3];
  g_H[4] = in_H[4]; g_H[5] = in_H[5]; g_H[6] = in_H[6]; g_H[7] = in_H[7];
  g_nblk = in_nblk;
  C10_T* self;
  const void* blk;
  C10_PB(self, blk);
  VERIF_REACH();
}

/* the same contract on a block that is NOT 4-byte aligned (a message hashed from the middle of a buffer): -DC10_PB_UNALIGNED */
void h_block_unaligned(void) {
  C10_GHOSTS_FROM_INPUTS;
  uint32_t in_H[8]; uint8_t in_mis;
  g_H[0] = in_H[0]; g_H[1] = in_H[1]; g_H[2] = in_H[2]; g_H[3] = in_H[3];
  g_H[4] = in_H[4]; g_H[5] = in_H[5]; g_H[6] = in_H[6]; g_H[7] = in_H[7];
  g_nblk = in_nblk;
  __CPROVER_assume(in_mis >= 1 && in_mis <= 3);
  C10_T* self = malloc(sizeof(C10_T));
  uint8_t* base = malloc(64 + 3);
  __CPROVER_assume(self != 0 && base != 0);
  C10_PB(self, base + in_mis);
  VERIF_REACH();
}

/* constructor: symbolic message length, ghost position g_k anywhere in the padded message */
void h_ctor(void) {
  C10_GHOSTS_FROM_INPUTS;
  size_t in_size;
  g_nblk = 0;
  g_H[0] = C10_IV0; g_H[1] = C10_IV1; g_H[2] = C10_IV2; g_H[3] = C10_IV3;
#if C10_NW >= 5
  g_H[4] = C10_IV4;
#endif
#if C10_NW == 8
  g_H[5] = C10_IV5; g_H[6] = C10_IV6; g_H[7] = C10_IV7;
#endif
  g_wi = g_k - C10_MD_TAIL_START(in_size);
  C10_T* self;
  const void* data;
  C10_CTOR(self, data, in_size);
  VERIF_REACH();
}

void h_bin(void) {
  size_t in_wi;
  uint32_t in_H[8];
  g_H[0] = in_H[0]; g_H[1] = in_H[1]; g_H[2] = in_H[2]; g_H[3] = in_H[3];
  g_H[4] = in_H[4]; g_H[5] = in_H[5]; g_H[6] = in_H[6]; g_H[7] = in_H[7];
  g_wi = in_wi;
  const C10_T* self;
  C10_writer* w;
  C10_BIN(self, w);
  VERIF_REACH();
}

void h_hex(void) {
  size_t in_hi;
  uint32_t in_H[8];
  g_H[0] = in_H[0]; g_H[1] = in_H[1]; g_H[2] = in_H[2]; g_H[3] = in_H[3];
  g_H[4] = in_H[4]; g_H[5] = in_H[5]; g_H[6] = in_H[6]; g_H[7] = in_H[7];
  g_hi = in_hi;
  const C10_T* self;
  C10_hexstr* ret;
  C10_HEX(self, ret);
  VERIF_REACH();
}

#if C10_ALG == 3
void h_rotate_right(void) {
  uint32_t in_x;
  uint8_t in_bits;
  rotate_right(in_x, in_bits);
  VERIF_REACH();
}
#endif
