"""C08 -- string splitting, joining, trimming and replacing obey their algebraic laws (DESIGN.md section 4, C08)."""
import re
from vf.extract import Source, Unit
from vf.lex import Rule, ExtractionBreak, find_def
from vf.pipeline import Group, Replay, ALL_LIB

ID = 'C08'
LEVEL = 'proof'
CC = 'src/Strings.cc'
HH = 'src/Strings.hh'

R = lambda pat, rep, count=1: Rule(pat, rep, count=count, regex=True)
L = lambda pat, rep, count=1: Rule(pat, rep, count=count)

SIZES = [R(r'\bs\.(size|length)\(\)', 's->size', '+')]
NPOS = R(r'\b\w+::npos\b', 'C8_NPOS', '+')

# ---------------------------------------------------------------------------------------------------------------------
SPLIT_LOOP = """
__CPROVER_assigns(token_start_offset, verif_exc, ret->size, g_pstart, g_plen, g_nstart)
__CPROVER_loop_invariant(verif_exc == 0 && token_start_offset <= s->size)
__CPROVER_loop_invariant(ret->size <= token_start_offset && (ret->size == 0 ==> token_start_offset == 0))
__CPROVER_loop_invariant(max_splits != 0 ==> ret->size <= max_splits)
__CPROVER_loop_invariant(g_pj < ret->size ==> (g_pstart <= s->size && g_plen < s->size - g_pstart && g_pstart + g_plen < token_start_offset))
__CPROVER_loop_invariant((g_pj < ret->size && g_pj == 0) ==> g_pstart == 0)
__CPROVER_loop_invariant(g_pj < ret->size ==> s->data[g_pstart + g_plen] == delim)
__CPROVER_loop_invariant((g_pj < ret->size && g_rk < g_plen) ==> s->data[g_pstart + g_rk] != delim)
__CPROVER_loop_invariant(g_pj + 1 < ret->size ==> g_nstart == g_pstart + g_plen + 1)
__CPROVER_loop_invariant(g_pj + 1 == ret->size ==> token_start_offset == g_pstart + g_plen + 1)
__CPROVER_decreases(s->size - token_start_offset)
"""


def split_unit(ctx, src):
    u = Unit(ctx, 'split')
    u.raw('#include "stubs/C08_str.h"\n')
    u.function(src, CC, r'vector<string> split\(const string& s, char delim, size_t max_splits\)',
               new_header='void split(vvec* ret, const vstr* s, char delim, size_t max_splits)', ret_zero='',
               rules=[L('vector<string> ret;', ''), SIZES[0], R(r'\bret\.size\(\)', 'ret->size', '+'), NPOS,
                      R(r'\bs\.find\(delim, (\w+)\)', r'c8_find_ch(s, delim, \1)'),
                      R(r'\bret\.(?:emplace|push)_back\(s\.substr\((\w+)\)\);', r'c8_push_substr(ret, s, \1, C8_NPOS);'),
                      R(r'\bret\.(?:emplace|push)_back\(s\.substr\((\w+), ([^;]*?)\)\);', r'c8_push_substr(ret, s, \1, \2);'),
                      L('return ret;', 'return;')],
               may_throw=['c8_push_substr'], nloops=1, loops={1: SPLIT_LOOP})
    return u


JOIN_LOOP = """
__CPROVER_assigns(verif_i, ret->size, g_oval, g_joff, g_joff2%(extra_assigns)s)
__CPROVER_loop_invariant(verif_i <= items->n && ret->size <= VSTR_MAXCAP)
__CPROVER_loop_invariant(verif_i == 0 ==> ret->size == 0)%(extra_inv)s
__CPROVER_loop_invariant(g_pj < verif_i ==> PJ_OK(items))
__CPROVER_loop_invariant((g_pj < verif_i && g_pj == 0) ==> g_joff == 0)
__CPROVER_loop_invariant(g_pj < verif_i ==> (g_joff <= ret->size && PJ_LEN(items) <= ret->size - g_joff))
__CPROVER_loop_invariant((g_pj < verif_i && g_obase == g_joff && g_rk < PJ_LEN(items)) ==> g_oval == g_srcd[PJ_START(items) + g_rk])
__CPROVER_loop_invariant(g_pj + 1 < verif_i ==> g_joff2 == g_joff + PJ_LEN(items) + %(seplen)d)
%(sep_inv)s
__CPROVER_loop_invariant(g_pj + 1 == verif_i ==> ret->size == g_joff + PJ_LEN(items))
__CPROVER_decreases(items->n - verif_i)
"""


def join_unit(ctx, src):
    """Both join templates, instantiated textually for ItemContainerT = vector<string> (slice model), DelimiterT = char."""
    u = Unit(ctx, 'join')
    u.raw('#include "contracts/C08_split.h"\n')
    FOR = R(r'for \(const auto& (\w+) : items\) \{',
            r'for (size_t verif_i = 0; verif_i < items->n; verif_i++) { const vslice* \1 = c8_item(items, verif_i);')
    APP = L('ret += item;', 'if (verif_i == g_pj) g_joff = ret->size; if (verif_i == g_pj + 1) g_joff2 = ret->size; '
            'c8_append(ret, items->src->data + item->start, item->len);')
    common = [L('string ret;', ''), FOR, APP, L('return ret;', 'return;')]
    # a boolean "first iteration" flag (if the text has one) is tied to the loop index in the invariant
    text = src.text(HH)
    _, body, _, _ = find_def(text, r'std::string join\(const ItemContainerT& items, DelimiterT& delim\)', 'function')
    mo = re.search(r'\bbool (\w+) = (true|false);', body)
    extra_inv, extra_assigns = '', ''
    if mo:
        extra_inv = '\n__CPROVER_loop_invariant(%s == (verif_i %s 0))' % (mo.group(1), '==' if mo.group(2) == 'true' else '!=')
        extra_assigns = ', ' + mo.group(1)
    u.function(src, HH, r'std::string join\(const ItemContainerT& items, DelimiterT& delim\)',
               new_header='void join_delim(vout* ret, const vsvec* items, char delim)',
               rules=common + [R(r'\bret\.empty\(\)', '(ret->size == 0)', None), L('ret += delim;', 'c8_push_back(ret, delim);')],
               nloops=1, loops={1: JOIN_LOOP % dict(seplen=1, extra_inv=extra_inv, extra_assigns=extra_assigns,
                   sep_inv='__CPROVER_loop_invariant((g_pj + 1 < verif_i && g_obase == g_joff + PJ_LEN(items) && g_rk == 0) ==> g_oval == delim)')})
    u.function(src, HH, r'std::string join\(const ItemContainerT& items\)',
               new_header='void join_plain(vout* ret, const vsvec* items)', rules=common,
               nloops=1, loops={1: JOIN_LOOP % dict(seplen=0, extra_inv='', extra_assigns='', sep_inv='')})
    return u


def plan(ctx):
    src = Source(ctx.src)
    groups = []
    us = split_unit(ctx, src)
    us.write()
    ctx.functions_under_contract = list(us.functions)
    RP = lambda mode: Replay(driver='C08/strings.cc', mode=mode, sources=ALL_LIB)
    groups.append(Group(name='split', harness='harness/C08/split.c', entry='h_split', function='split(const string&, char, size_t)',
                        enforce='split', replace=['c8_find_ch'], loops=True, kind='loop-contract', replay=RP('split'), timeout=300, stage1=90))
    uj = join_unit(ctx, src)
    uj.write()
    ctx.functions_under_contract += uj.functions
    for fn, what in (('join_delim', 'join(items, delim)'), ('join_plain', 'join(items)')):
        groups.append(Group(name=fn, harness='harness/C08/split.c', entry='h_' + fn, function=what + ' [ItemContainerT = vector<string>]',
                            enforce=fn, loops=True, kind='loop-contract', replay=RP(fn), timeout=300, stage1=90))
    return groups


EXPLANATION = ''
TRUSTED = []
ASSUMPTIONS = []
DROPS = ''
NOT_DECIDED = []
CLAIMED = True
MANIFEST = dict(category='proof', text='', note='', technique='')
