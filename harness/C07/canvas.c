/* C07: canvas operations against the ghost-pixel contracts.  Function text: x_pixel.c, x_canvas.c (extracted from src/Image.cc,
 * src/Image.hh on this run); contracts: contracts/C07_image.h. */
#include "contracts/C07_image.h"
#include "x_color.c"
#include "stubs/C07_pixel_model.h"
int verif_exc;
const Image *g_dimg, *g_simg, *g_mimg;
ssize_t g_dw, g_dh, g_sw, g_sh, g_mw, g_mh;
bool g_dalpha, g_salpha, g_malpha;
uint8_t g_dcw, g_scw, g_mcw;
ssize_t g_dx, g_dy, g_sx, g_sy, g_mx, g_my, g_ex, g_ey;
uint64_t g_dr, g_dg, g_db, g_da, g_sr, g_sg, g_sb, g_sa, g_mr, g_mg, g_mb, g_ma, g_er, g_eg, g_eb, g_ea;
ssize_t g_cw, g_ch;
bool g_mx0, g_mx1, g_mx2, g_mx3, g_mx4, g_my0, g_my1, g_my2, g_my3, g_my4;
bool g_tup_ok;
uint64_t g_t_al, g_t_cr, g_t_cg, g_t_cb, g_t_ca, g_t_dr, g_t_dg, g_t_db, g_t_da, g_t_mx, g_t_e1, g_t_e2, g_bo_r, g_bo_g, g_bo_b, g_bo_a, g_bo_e;
uint64_t g_c1r, g_c1g, g_c1b, g_c1a;
uint32_t g_cb_d, g_cb_s, g_cb_out;
uint64_t g_ci_dr, g_ci_dg, g_ci_db, g_ci_da, g_ci_sr, g_ci_sg, g_ci_sb, g_ci_sa, g_co_r, g_co_g, g_co_b, g_co_a;
size_t g_ln; bool g_conn; ssize_t g_fx, g_fy, g_lx, g_ly;
#include "x_pixel_c.c"
#include "x_canvas.c"

/* globals are zero-initialised, not nondet: every ghost gets its value from a nondet local */
#define GH(T, n) { T in_gh_##n; g_##n = in_gh_##n; }
#define IN_D GH(ssize_t, dw) GH(ssize_t, dh) GH(bool, dalpha) GH(uint8_t, dcw) GH(ssize_t, dx) GH(ssize_t, dy) \
             GH(uint64_t, dr) GH(uint64_t, dg) GH(uint64_t, db) GH(uint64_t, da)
#define IN_S GH(ssize_t, sw) GH(ssize_t, sh) GH(bool, salpha) GH(uint8_t, scw) GH(ssize_t, sx) GH(ssize_t, sy) \
             GH(uint64_t, sr) GH(uint64_t, sg) GH(uint64_t, sb) GH(uint64_t, sa)
#define IN_M GH(ssize_t, mw) GH(ssize_t, mh) GH(bool, malpha) GH(uint8_t, mcw) GH(ssize_t, mx) GH(ssize_t, my) \
             GH(uint64_t, mr) GH(uint64_t, mg) GH(uint64_t, mb) GH(uint64_t, ma)
#define IN_CB GH(uint32_t, cb_d) GH(uint32_t, cb_s) GH(uint32_t, cb_out) GH(uint64_t, ci_dr) GH(uint64_t, ci_dg) GH(uint64_t, ci_db) GH(uint64_t, ci_da) \
              GH(uint64_t, ci_sr) GH(uint64_t, ci_sg) GH(uint64_t, ci_sb) GH(uint64_t, ci_sa) GH(uint64_t, co_r) GH(uint64_t, co_g) GH(uint64_t, co_b) GH(uint64_t, co_a)
#define IN_T GH(bool, tup_ok) GH(uint64_t, t_al) GH(uint64_t, t_cr) GH(uint64_t, t_cg) GH(uint64_t, t_cb) GH(uint64_t, t_ca) GH(uint64_t, t_dr) GH(uint64_t, t_dg) \
             GH(uint64_t, t_db) GH(uint64_t, t_da) GH(uint64_t, t_mx) GH(uint64_t, t_e1) GH(uint64_t, t_e2) GH(uint64_t, bo_r) GH(uint64_t, bo_g) GH(uint64_t, bo_b) GH(uint64_t, bo_a) GH(uint64_t, bo_e)
#define IN_RECT ssize_t in_x, in_y, in_w, in_h
#define IN_BLIT IN_RECT, in_sx, in_sy
#define IN_RGBA uint64_t in_r, in_g, in_b, in_a

/* ---- uint32_t colour overloads of the accessors (the 4-channel accessors are replaced by their contract) ---- */
void h_read_pixel_c(void) { Image img; IN_D IN_S IN_M ssize_t in_x, in_y; int in_role; g_dimg = in_role == 0 ? &img : 0; g_simg = in_role == 1 ? &img : 0;
  g_mimg = in_role == 2 ? &img : 0; verif_exc = 0; Image_read_pixel_c(&img, in_x, in_y); VERIF_REACH(); }
void h_write_pixel_c(void) { Image img; IN_D ssize_t in_x, in_y; uint32_t in_c; g_dimg = &img; verif_exc = 0; Image_write_pixel_c(&img, in_x, in_y, in_c); VERIF_REACH(); }

/* ---- the ghost-pixel models satisfy the loop-level contracts ---- */
void h_model_read_pixel(void) { Image img; IN_D IN_S IN_M ssize_t in_x, in_y; int in_role, in_ptrs; uint64_t r, g, b, a; g_dimg = in_role == 0 ? &img : 0;
  g_simg = in_role == 1 ? &img : 0; g_mimg = in_role == 2 ? &img : 0; verif_exc = 0;
  Image_read_pixel(&img, in_x, in_y, (in_ptrs & 1) ? &r : 0, (in_ptrs & 2) ? &g : 0, (in_ptrs & 4) ? &b : 0, (in_ptrs & 8) ? &a : 0); VERIF_REACH(); }
void h_model_write_pixel(void) { Image img; IN_D ssize_t in_x, in_y; uint64_t in_r, in_g, in_b, in_a; g_dimg = &img; verif_exc = 0;
  Image_write_pixel(&img, in_x, in_y, in_r, in_g, in_b, in_a); VERIF_REACH(); }

/* ---- clamp ---- */
void h_clamp(void) { const Image *d, *s; ssize_t in_x, in_y, in_w, in_h, in_sx, in_sy; GH(ssize_t, dx) GH(ssize_t, dy) GH(ssize_t, dw) GH(ssize_t, dh) GH(ssize_t, sw) GH(ssize_t, sh)
  ssize_t x = in_x, y = in_y, w = in_w, h = in_h, sx = in_sx, sy = in_sy; clamp_blit_dimensions(d, s, &x, &y, &w, &h, &sx, &sy); VERIF_REACH(); }

/* ---- fill / clear ---- */
void h_fill_rect(void) { Image* self; IN_D IN_T IN_RECT; IN_RGBA; Image_fill_rect(self, in_x, in_y, in_w, in_h, in_r, in_g, in_b, in_a); VERIF_REACH(); }
void h_fill_rect_c(void) { Image* self; IN_D IN_T IN_RECT; uint32_t in_c; Image_fill_rect_c(self, in_x, in_y, in_w, in_h, in_c); VERIF_REACH(); }
void h_clear(void) { Image* self; IN_D IN_RGBA; Image_clear(self, in_r, in_g, in_b, in_a); VERIF_REACH(); }
void h_clear_c(void) { Image* self; IN_D uint32_t in_c; Image_clear_c(self, in_c); VERIF_REACH(); }

/* ---- blits ---- */
#define HB(name, decl, ...) void h_##name(void) { Image* self; const Image* source; IN_D IN_S IN_CB IN_T IN_BLIT; decl; \
  Image_##name(self, source, in_x, in_y, in_w, in_h, in_sx, in_sy __VA_ARGS__); VERIF_REACH(); }
HB(blit, int in_unused)
HB(mask_blit_rgb, IN_RGBA, , in_r, in_g, in_b)
HB(mask_blit_dst_rgb, IN_RGBA, , in_r, in_g, in_b)
HB(mask_blit_c, uint32_t in_c, , in_c)
HB(mask_blit_dst_c, uint32_t in_c, , in_c)
HB(blend_blit, int in_unused)
HB(blend_blit_alpha, uint64_t in_alpha, , in_alpha)
HB(custom_blit_c, int in_unused)
HB(custom_blit_rgba, int in_unused)
void h_mask_blit_mask(void) { Image* self; const Image* source; const Image* mask; IN_D IN_S IN_M IN_BLIT;
  Image_mask_blit_mask(self, source, in_x, in_y, in_w, in_h, in_sx, in_sy, mask); VERIF_REACH(); }

/* ---- outlined blend expressions: function-point contract against the specification formula, all arguments ---- */
#define HA8(name) void h_##name(void) { IN_T uint64_t in_p[8]; name(in_p[0], in_p[1], in_p[2], in_p[3], in_p[4], in_p[5], in_p[6], in_p[7]); VERIF_REACH(); }
HA8(x_fill_bl1) HA8(x_fill_bl2) HA8(x_fill_bl3) HA8(x_fill_bl4) HA8(x_blit_bl1) HA8(x_blit_bl2) HA8(x_blit_bl3) HA8(x_blit_bl4)
#define HAM(name) void h_##name(void) { IN_T uint64_t in_p[8]; Image img; uint64_t in_max; img.max_value = in_max; \
  name(&img, in_p[0], in_p[1], in_p[2], in_p[3], in_p[4], in_p[5], in_p[6], in_p[7]); VERIF_REACH(); }
HAM(x_blend_bl1) HAM(x_blend_bl2) HAM(x_blend_bl3) HAM(x_blend_bl4)
void h_x_blenda_bl1(void) { IN_T uint64_t in_p[8]; Image img; uint64_t in_max; img.max_value = in_max; x_blenda_bl1(&img, in_p[0], in_p[1], in_p[2], in_p[3], in_p[4]); VERIF_REACH(); }
#define HAA(name) void h_##name(void) { IN_T uint64_t in_p[8]; Image img; uint64_t in_max, in_sa, in_ea; img.max_value = in_max; \
  name(&img, in_sa, in_ea, in_p[0], in_p[1], in_p[2], in_p[3], in_p[4], in_p[5], in_p[6], in_p[7]); VERIF_REACH(); }
HAA(x_blenda_bl2) HAA(x_blenda_bl3) HAA(x_blenda_bl4)

/* ---- lemma wrappers: the blend rules with explicit arithmetic, derived from the function-point contracts (callee replaced by its contract) ---- */
#define SET_TUP(al, cr, cg, cb, ca) g_tup_ok = 1; g_t_al = (al); g_t_cr = (cr); g_t_cg = (cg); g_t_cb = (cb); g_t_ca = (ca); \
  g_t_dr = g_dr; g_t_dg = g_dg; g_t_db = g_db; g_t_da = g_da
#define SET_BO8 g_bo_r = BL8(g_t_al, g_t_cr, g_t_dr); g_bo_g = BL8(g_t_al, g_t_cg, g_t_dg); g_bo_b = BL8(g_t_al, g_t_cb, g_t_db); g_bo_a = BL8(g_t_al, g_t_ca, g_t_da)
#define SET_BOM g_bo_r = BLM(g_t_cr, g_t_al, g_t_dr, g_t_mx); g_bo_g = BLM(g_t_cg, g_t_al, g_t_dg, g_t_mx); g_bo_b = BLM(g_t_cb, g_t_al, g_t_db, g_t_mx); \
  g_bo_a = BLM(g_t_ca, g_t_al, g_t_da, g_t_mx)
void L_fill_rect_rule(Image* self, ssize_t x, ssize_t y, ssize_t w, ssize_t h, uint64_t r, uint64_t g, uint64_t b, uint64_t a)
{ SET_TUP(a, r, g, b, a); SET_BO8; Image_fill_rect(self, x, y, w, h, r, g, b, a); }
void L_blit_rule(BLIT_PARAMS)
{ SET_TUP(g_sa, g_sr, g_sg, g_sb, g_sa); SET_BO8; Image_blit(self, source, x, y, w, h, sx, sy); }
void L_blend_blit_rule(BLIT_PARAMS)
{ SET_TUP(g_sa, g_sr, g_sg, g_sb, g_sa); g_t_mx = self->max_value; SET_BOM; Image_blend_blit(self, source, x, y, w, h, sx, sy); }
void L_blend_blit_alpha_rule(BLIT_PARAMS, uint64_t source_alpha)
{ g_t_mx = self->max_value; g_t_e1 = source_alpha; g_t_e2 = g_sa; g_bo_e = (g_t_e1 * g_t_e2) / g_t_mx;
  SET_TUP(g_bo_e, g_sr, g_sg, g_sb, g_sa); SET_BOM; Image_blend_blit_alpha(self, source, x, y, w, h, sx, sy, source_alpha); }
void l_fill_rect_rule(void) { Image* self; IN_D IN_RECT; IN_RGBA; L_fill_rect_rule(self, in_x, in_y, in_w, in_h, in_r, in_g, in_b, in_a); VERIF_REACH(); }
#define HL(name, decl, ...) void l_##name(void) { Image* self; const Image* source; IN_D IN_S IN_BLIT; decl; \
  L_##name(self, source, in_x, in_y, in_w, in_h, in_sx, in_sy __VA_ARGS__); VERIF_REACH(); }
HL(blit_rule, int in_unused)
HL(blend_blit_rule, int in_unused)
HL(blend_blit_alpha_rule, uint64_t in_alpha, , in_alpha)

/* ---- whole-image transforms ---- */
void h_invert(void) { Image* self; IN_D Image_invert(self); VERIF_REACH(); }
void h_set_alpha_from_mask_color(void) { Image* self; IN_D uint64_t in_r, in_g, in_b; Image_set_alpha_from_mask_color(self, in_r, in_g, in_b); VERIF_REACH(); }
void h_set_alpha_from_mask_color_c(void) { Image* self; IN_D uint32_t in_c; Image_set_alpha_from_mask_color_c(self, in_c); VERIF_REACH(); }
void L_invert_twice(Image* self) { Image_invert(self); Image_invert(self); }
void l_invert_twice(void) { Image* self; IN_D L_invert_twice(self); VERIF_REACH(); }
#ifdef C07_GHOST2
#define IN_E GH(ssize_t, ex) GH(ssize_t, ey) GH(uint64_t, er) GH(uint64_t, eg) GH(uint64_t, eb) GH(uint64_t, ea)
void h_reverse_horizontal(void) { Image* self; IN_D IN_E Image_reverse_horizontal(self); VERIF_REACH(); }
void h_reverse_vertical(void) { Image* self; IN_D IN_E Image_reverse_vertical(self); VERIF_REACH(); }
void L_reverse_horizontal_twice(Image* self) { Image_reverse_horizontal(self); Image_reverse_horizontal(self); }
void L_reverse_vertical_twice(Image* self) { Image_reverse_vertical(self); Image_reverse_vertical(self); }
void l_reverse_horizontal_twice(void) { Image* self; IN_D IN_E L_reverse_horizontal_twice(self); VERIF_REACH(); }
void l_reverse_vertical_twice(void) { Image* self; IN_D IN_E L_reverse_vertical_twice(self); VERIF_REACH(); }
#endif
/* ---- lines, text ---- */
void h_draw_horizontal_line(void) { Image* self; IN_D ssize_t in_x1, in_x2, in_y, in_dash; IN_RGBA; Image_draw_horizontal_line(self, in_x1, in_x2, in_y, in_dash, in_r, in_g, in_b, in_a); VERIF_REACH(); }
void h_draw_vertical_line(void) { Image* self; IN_D ssize_t in_x, in_y1, in_y2, in_dash; IN_RGBA; Image_draw_vertical_line(self, in_x, in_y1, in_y2, in_dash, in_r, in_g, in_b, in_a); VERIF_REACH(); }
void h_draw_horizontal_line_c(void) { Image* self; IN_D ssize_t in_x1, in_x2, in_y, in_dash; uint32_t in_c; Image_draw_horizontal_line_c(self, in_x1, in_x2, in_y, in_dash, in_c); VERIF_REACH(); }
void h_draw_vertical_line_c(void) { Image* self; IN_D ssize_t in_x, in_y1, in_y2, in_dash; uint32_t in_c; Image_draw_vertical_line_c(self, in_x, in_y1, in_y2, in_dash, in_c); VERIF_REACH(); }
void h_x_h_div1(void) { ssize_t in_x, in_dash; x_h_div1(in_x, in_dash); VERIF_REACH(); }
void h_x_v_div1(void) { ssize_t in_x, in_dash; x_v_div1(in_x, in_dash); VERIF_REACH(); }
void h_draw_text_cell(void) { Image* self; IN_D GH(bool, tup_ok) ssize_t in_x, in_xpos, in_ypos, in_maxx; uint8_t in_ch; IN_RGBA; uint64_t in_br, in_bg, in_bb, in_ba;
  x_pos = in_xpos; y_pos = in_ypos; max_x_pos = in_maxx;
  Image_draw_text_cell(self, in_x, in_ch, in_r, in_g, in_b, in_a, in_br, in_bg, in_bb, in_ba); VERIF_REACH(); }
void h_draw_text_v(void) { Image* self; IN_D GH(bool, tup_ok) ssize_t in_x, in_y; ssize_t wv, hv; int in_ptrs; IN_RGBA; uint64_t in_br, in_bg, in_bb, in_ba; const char* buf; size_t in_size;
  Image_draw_text_v(self, in_x, in_y, (in_ptrs & 1) ? &wv : 0, (in_ptrs & 2) ? &hv : 0, in_r, in_g, in_b, in_a, in_br, in_bg, in_bb, in_ba, buf, in_size); VERIF_REACH(); }

/* ---- clipping invariance: the same call on a small canvas and on a larger one, same starting value of the symbolic pixel ---- */
#define POINT_D(img) g_dimg = (img); g_dw = (img)->width; g_dh = (img)->height; g_dalpha = (img)->has_alpha; g_dcw = (img)->channel_width
void L_fill_rect_clip(Image* small, Image* big, ssize_t x, ssize_t y, ssize_t w, ssize_t h, uint64_t r, uint64_t g, uint64_t b, uint64_t a)
{ uint64_t r0 = g_dr, g0 = g_dg, b0 = g_db, a0 = g_da;
  POINT_D(small); Image_fill_rect(small, x, y, w, h, r, g, b, a); g_c1r = g_dr; g_c1g = g_dg; g_c1b = g_db; g_c1a = g_da;
  g_dr = r0; g_dg = g0; g_db = b0; g_da = a0;
  POINT_D(big); Image_fill_rect(big, x, y, w, h, r, g, b, a); }
void L_blit_clip(Image* small, Image* big, const Image* source, ssize_t x, ssize_t y, ssize_t w, ssize_t h, ssize_t sx, ssize_t sy)
{ uint64_t r0 = g_dr, g0 = g_dg, b0 = g_db, a0 = g_da;
  POINT_D(small); Image_blit(small, source, x, y, w, h, sx, sy); g_c1r = g_dr; g_c1g = g_dg; g_c1b = g_db; g_c1a = g_da;
  g_dr = r0; g_dg = g0; g_db = b0; g_da = a0;
  POINT_D(big); Image_blit(big, source, x, y, w, h, sx, sy); }
void l_fill_rect_clip(void) { Image *s, *b; IN_D IN_T IN_RECT; IN_RGBA; L_fill_rect_clip(s, b, in_x, in_y, in_w, in_h, in_r, in_g, in_b, in_a); VERIF_REACH(); }
void l_blit_clip(void) { Image *s, *b; const Image* source; IN_D IN_S IN_T IN_BLIT; L_blit_clip(s, b, source, in_x, in_y, in_w, in_h, in_sx, in_sy); VERIF_REACH(); }
void h_draw_line(void) { Image* self; g_ln = 0; g_conn = 1; IN_D ssize_t in_x0, in_y0, in_x1, in_y1; IN_RGBA; Image_draw_line(self, in_x0, in_y0, in_x1, in_y1, in_r, in_g, in_b, in_a); VERIF_REACH(); }
void h_draw_line_c(void) { Image* self; g_ln = 0; g_conn = 1; IN_D ssize_t in_x0, in_y0, in_x1, in_y1; uint32_t in_c; Image_draw_line_c(self, in_x0, in_y0, in_x1, in_y1, in_c); VERIF_REACH(); }
