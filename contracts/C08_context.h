/* C08 side-car contract: split_context (src/Strings.cc) -- bracket / quote aware split.
 * Reference automaton (written from the documented behaviour: ( [ { < open a level closed by ) ] } >; ' and " open a quoted level closed
 * by the same character; inside quotes a backslash escapes the next character and brackets are inert; a character that is not
 * the innermost expected closer is ordinary).  State: nesting stack (depth, innermost expected closer) + escape flag.  One step on
 * character c:
 *     POP   if not escaped, depth > 0 and c is the innermost expected closer;
 *     else  escape' = (escaped ? false : quoted && c == '\\');   PUSH closer(c) if not quoted and c is an opener;
 *     else  SPLIT if depth == 0, c == delim and fewer than max_splits pieces have been cut (max_splits == 0: unlimited).
 * The code is checked in LOCK-STEP: after every loop iteration c8_ctx_check (called from the loop increment) asserts that the
 * stack operation performed (recorded by the stack stub), the escape flag and the cut made are exactly the reference step's.
 * On top of that the slice facts of split (tiling, separators, no top-level delimiter inside a piece) are proved with the
 * ghost piece g_pj and the ghost position g_sk, whose nesting depth before the step is recorded in g_kdepth.
 * The nesting stack is abstracted to (depth, innermost closer): after a POP the new innermost closer is unconstrained (the loop
 * contract havocs the stack between iterations anyway), which only adds behaviours. */
#ifndef C08_CONTEXT_H
#define C08_CONTEXT_H
#include "contracts/C08_split.h"

typedef struct { size_t size; char top; } cstack;
extern size_t g_depth, g_nops, g_kdepth, g_size0, g_cnt0, g_ls0, g_nconsumed;
extern int g_lastop; extern char g_lastval, g_c, g_top0; extern bool g_esc0;
char nondet_char(void);
static inline void c8_stk_init(cstack* k) { k->size = 0; k->top = 0; g_depth = 0; }
static inline char c8_stk_back(const cstack* k) { __CPROVER_assert(k->size > 0, "vector::back() on an empty vector is undefined"); return k->top; }
static inline void c8_stk_push(cstack* k, char c) { __CPROVER_assume(k->size < VSTR_MAXCAP); k->size++; k->top = c; g_depth = k->size; g_nops++; g_lastop = 1; g_lastval = c; }
static inline void c8_stk_pop(cstack* k) { __CPROVER_assert(k->size > 0, "vector::pop_back() on an empty vector is undefined"); k->size--; k->top = nondet_char(); g_depth = k->size; g_nops++; g_lastop = 2; }

#define CTX_CLOSER(c) ((c) == '(' ? ')' : (c) == '[' ? ']' : (c) == '{' ? '}' : (c) == '<' ? '>' : (c) == '\'' ? '\'' : (c) == '"' ? '"' : 0)
#define CTX_POP(c, size, top, esc) (!(esc) && (size) > 0 && (c) == (top))
#define CTX_QUOTED(size, top) ((size) > 0 && ((top) == '\'' || (top) == '"'))
#define CTX_ESC_NEXT(c, size, top, esc) (CTX_POP(c, size, top, esc) ? (esc) : ((esc) ? 0 : (CTX_QUOTED(size, top) && (c) == '\\')))
#define CTX_PUSH(c, size, top, esc) (!CTX_POP(c, size, top, esc) && !CTX_QUOTED(size, top) && CTX_CLOSER(c) != 0)
#define CTX_SPLIT(c, size, top, esc, delim, max_splits, count) \
  (!CTX_POP(c, size, top, esc) && !CTX_QUOTED(size, top) && CTX_CLOSER(c) == 0 && (size) == 0 && (c) == (delim) && ((max_splits) == 0 || (count) < (max_splits)))

/* ghost snapshot at the start of an iteration / lock-step check at its end */
#define CTX_SNAPSHOT(k, esc, count, last_start, c, z) \
  g_c = (c); g_size0 = (k).size; g_top0 = (k).top; g_esc0 = (esc) ? 1 : 0; g_cnt0 = (count); g_ls0 = (last_start); g_nops = 0; g_lastop = 0; \
  if ((z) == g_sk) g_kdepth = (k).size;
static inline void c8_ctx_check(const cstack* k, bool esc, size_t count, size_t last_start, size_t z, char delim, size_t max_splits)
{
  bool verif_pop = CTX_POP(g_c, g_size0, g_top0, g_esc0), verif_push = CTX_PUSH(g_c, g_size0, g_top0, g_esc0);
  bool verif_split = CTX_SPLIT(g_c, g_size0, g_top0, g_esc0, delim, max_splits, g_cnt0);
  __CPROVER_assert(g_nops == ((verif_pop || verif_push) ? 1 : 0), "lock-step: at most the one stack operation of the reference step");
  __CPROVER_assert(verif_pop ==> (g_lastop == 2 && k->size == g_size0 - 1), "lock-step: POP exactly when the character is the innermost expected closer and not escaped");
  __CPROVER_assert(verif_push ==> (g_lastop == 1 && g_lastval == CTX_CLOSER(g_c) && k->size == g_size0 + 1), "lock-step: PUSH of the matching closer exactly for an opener outside quotes");
  __CPROVER_assert((esc ? 1 : 0) == (CTX_ESC_NEXT(g_c, g_size0, g_top0, g_esc0) ? 1 : 0), "lock-step: escape flag");
  __CPROVER_assert(count == g_cnt0 + (verif_split ? 1 : 0), "lock-step: a piece is cut exactly at a top-level delimiter while fewer than max_splits cuts were made");
  __CPROVER_assert(last_start == (verif_split ? z + 1 : g_ls0), "lock-step: the next piece starts right after the delimiter");
  g_nconsumed = z + 1;    /* the reference automaton has now consumed s[0 .. z] */
}

void split_context(vvec* ret, const vstr* s, char delim, size_t max_splits)
VEC_REQ(ret) SRC_REQ(s)
__CPROVER_requires(verif_exc == 0 && g_pj < VSTR_MAXCAP)
/* accepts iff the nesting stack is empty at the END OF THE INPUT (the automaton has consumed every character, whatever max_splits is);
 * the only exception is runtime_error */
__CPROVER_ensures(g_nconsumed == s->size)
__CPROVER_ensures((verif_exc == 0 && g_depth == 0) || (verif_exc == EXC_runtime_error && g_depth != 0))
__CPROVER_ensures(verif_exc == 0 ==> (ret->size >= 1 && ret->size - 1 <= s->size))
__CPROVER_ensures((verif_exc == 0 && max_splits != 0) ==> ret->size - 1 <= max_splits)
__CPROVER_ensures((verif_exc == 0 && g_pj < ret->size) ==> (g_pstart <= s->size && g_plen <= s->size - g_pstart))
__CPROVER_ensures((verif_exc == 0 && g_pj == 0) ==> g_pstart == 0)
__CPROVER_ensures((verif_exc == 0 && g_pj + 1 < ret->size) ==> (g_nstart == g_pstart + g_plen + 1 && g_nstart <= s->size && s->data[g_pstart + g_plen] == delim))
__CPROVER_ensures((verif_exc == 0 && g_pj + 1 == ret->size) ==> g_pstart + g_plen == s->size)
/* no piece contains a top-level delimiter (nesting depth 0 before it; delim itself not an opener) unless max_splits stopped the splitting (last piece) */
__CPROVER_ensures((verif_exc == 0 && g_pj < ret->size && !(SPLIT_CAPPED(ret, max_splits) && g_pj + 1 == ret->size) && g_sk >= g_pstart && g_sk - g_pstart < g_plen &&
                   s->data[g_sk] == delim && CTX_CLOSER(delim) == 0) ==> g_kdepth > 0)
__CPROVER_assigns(verif_exc, ret->size, g_pstart, g_plen, g_nstart, g_depth, g_nops, g_kdepth, g_size0, g_cnt0, g_ls0, g_lastop, g_lastval, g_c, g_top0, g_esc0, g_nconsumed);
#endif
