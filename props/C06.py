"""C06 -- image codecs (DESIGN.md section 4, C06): index / padding / row-order arithmetic and memory safety of the load/save loops."""
import re
from vf.extract import Source, Unit
from vf import lex
from vf.lex import Rule, ExtractionBreak
from vf.pipeline import Group, Replay, ALL_LIB

ID = 'C06'
LEVEL = 'other'

CC = 'src/Image.cc'
HH = 'src/Image.hh'
LOAD = r'void Image::load\(FILE\* f\)'
SAVE = r'void Image::save_helper\(Format format, Writer&& writer\) const'
RP = dict(driver='C06/image_codec.cc', sources=ALL_LIB)


# ---------------------------------------------------------------------------------------------------------------------
# extraction helpers (statement ranges inside a function; everything else is the framework's Unit API)
# ---------------------------------------------------------------------------------------------------------------------
def fbody(src, rel, sig):
    text = src.text(rel)
    _, body, s, e = lex.find_def(text, sig, 'enclosing function')
    return text, body, s


def one(pattern, text, what):
    ms = list(re.finditer(pattern, lex.mask(text), re.S))
    if len(ms) != 1:
        raise ExtractionBreak('%s /%s/: %d matches (exactly 1 required)' % (what, pattern, len(ms)))
    return ms[0]


def emit_range(u, src, rel, sig, start_re, end, new_header, *, rules=None, ret_zero='', loops=None, nloops=0, tail=''):
    """Cut the statement sequence that starts at the (single) match of start_re and ends at `end` inside the function `sig`
    and emit it as the body of a C function.  end = ('block', intro_regex): through the closing brace of that block;
    ('before', regex): up to (not including) the single match of regex."""
    text, body, fs = fbody(src, rel, sig)
    a = one(start_re, body, 'range start').start()
    if end[0] == 'block':
        _, _, bs, be = lex.find_block(body, end[1], 'range end block')
        b = be
    else:
        b = one(end[1], body, 'range end').start()
    if b <= a:
        raise ExtractionBreak('range /%s/ .. /%s/ is empty' % (start_re, end[1]))
    where = '%s:%s:%s' % (rel, sig, start_re)
    chunk = '{\n  ' + body[a:b] + tail + '\n}'
    chunk = u._post(chunk, where, rules, True, ret_zero, loops, nloops)
    u.parts.append(new_header.rstrip() + '\n' + chunk + '\n')
    u.functions.append({'file': rel, 'cxx_header': ' '.join((sig + ' :: statements from /' + start_re + '/').split()),
                        'c_header': ' '.join(new_header.split()), 'line': text.count('\n', 0, fs + a) + 1})


FORMAT_RULE = Rule(r'\bFormat::(\w+)', r'Format_\1', count='+', regex=True)


def types_unit(ctx, src):
    """enum Format, union DataPtrs and the data members of class Image, cut from Image.hh (so that a change of a member type
    or of the member list reaches the verified text)."""
    u = Unit(ctx, 'image_types')
    u.raw('#include <stdint.h>\n#include <stddef.h>\n#include <stdbool.h>\n#include <stdio.h>\n#include <stdlib.h>\n#include <string.h>\n#include <sys/types.h>\n')
    en = u.snippet(src, HH, r'enum class Format \{(.*?)\};', group=1)
    names = [x.strip() for x in en.split(',') if x.strip()]
    u.raw('typedef enum {\n' + ',\n'.join('  Format_' + n for n in names) + '\n} Format;')
    un = u.snippet(src, HH, r'union DataPtrs \{[^{}]*\};')
    u.raw('typedef ' + un.rstrip().rstrip(';') + ' DataPtrs;')
    mem = u.snippet(src, HH, r'union DataPtrs \{[^{}]*\};\s*(.*?)\s*void load\(FILE\* f\);', group=1)
    if not re.fullmatch(r'(\s*[A-Za-z_]\w*\s+\w+;)+\s*', mem):
        raise ExtractionBreak('data members of class Image have an unexpected shape: %r' % mem)
    u.raw('typedef struct Image {\n' + mem + '\n} Image;')
    u.function(src, HH, r'inline size_t get_data_size\(\) const', scope=r'class Image',
               new_header='static inline size_t Image_get_data_size(const Image* self)')
    u.write(suffix='.h')
    return u


# ---------------------------------------------------------------------------------------------------------------------
# PPM / PGM / PAM loader: allocation, read, commit, in-place gray -> RGB expansion
# ---------------------------------------------------------------------------------------------------------------------
PPM_OUTER = ('__CPROVER_assigns(y, __CPROVER_object_whole(self->data.raw))\n'
             '__CPROVER_loop_invariant(-1 <= y && y < self->height)\n'
             '__CPROVER_loop_invariant(C06_PPM_INV(self, (y + 1) * self->width))\n'
             '__CPROVER_decreases(y + 1)')
PPM_INNER = ('__CPROVER_assigns(x, __CPROVER_object_whole(self->data.raw))\n'
             '__CPROVER_loop_invariant(-1 <= x && x < self->width)\n'
             '__CPROVER_loop_invariant(C06_PPM_INV(self, y * self->width + x + 1))\n'
             '__CPROVER_decreases(x + 1)')


def ppm_load_unit(ctx, src):
    u = Unit(ctx, 'ppm_load')
    rules = [
        FORMAT_RULE,
        # try { freadx(..); } catch (const exception&) { free(..); throw; }   (the bare rethrow is already lowered to `{ return ; }`)
        Rule(r'try\s*\{(.*?)\}\s*catch\s*\(const exception&\)\s*\{(.*?)\{ return ; \}\s*\}',
             r'\1 if (verif_exc) {\2 return; } C06_GHOST_AFTER_READ(new_data.raw);', count=1, regex=True),
        Rule(r'\bfreadx\(', 'C06_freadx(', count=1, regex=True),
    ]
    emit_range(u, src, CC, LOAD, r'DataPtrs new_data;', ('block', r'if \(format == Format::GRAYSCALE_PPM\)'),
               'void Image_load_ppm_tail(Image* self, FILE* f, Format format, size_t new_width, size_t new_height, '
               'bool new_has_alpha, uint8_t new_channel_width, uint64_t new_max_value)',
               rules=rules, ret_zero='', loops={1: PPM_OUTER, 2: PPM_INNER}, nloops=2)
    u.write()
    return u


def ppm_load_groups(ctx, dim):
    gs = []
    for fmt, fname in ((0, 'gray'), (1, 'colour')):
        for cw, alpha in [(c, a) for c in (8, 16, 32, 64) for a in (0, 1)]:
            gs.append(Group(
                name='Image.load.ppm[%s,cw=%d,alpha=%d]' % (fname, cw, alpha), harness='harness/C06/ppm_load.c', entry='h_ppm_tail',
                function='Image::load (PPM/PGM/PAM: allocation, read, commit, gray expansion)', enforce='Image_load_ppm_tail', loops=True,
                defines=['C06_DIM=%d' % dim, 'C06_CW=%d' % cw, 'C06_GRAY=%d' % (1 - fmt), 'C06_ALPHA=%d' % alpha], kind='bounded',
                bound='image width and height symbolic in 1..%d (every residue of width mod 4), all pixel contents' % dim,
                timeout=600, stage1=20, first='minisat', object_bits=12,
                clause_note='contracts/C06_ppm.h: every index inside the allocation, Image buffer holds get_data_size() bytes, pixel (x,y) == '
                            '(v,v,v[,a]) of the file sample, consumed bytes == w*h*channels*width/8, members unchanged when the read throws',
                replay=Replay(mode='gray_load' if fmt == 0 else 'ppm_roundtrip', extra=['in_cw=0x%X' % cw, 'in_alpha=0x%X' % alpha], **RP)))
    return gs


def plan(ctx):
    src = Source(ctx.src)
    dim = 16 if ctx.tier == 'thorough' else 8
    groups = []
    ut = types_unit(ctx, src)
    up = ppm_load_unit(ctx, src)
    ctx.functions_under_contract = list(ut.functions) + list(up.functions)
    groups += ppm_load_groups(ctx, dim)
    return groups


EXPLANATION = ''
TRUSTED = []
ASSUMPTIONS = []
DROPS = ''
NOT_DECIDED = []
CLAIMED = True
MANIFEST = dict(category='other', text='', note='', technique='')
