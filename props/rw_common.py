"""Shared extraction for C01 / C02: StringReader, BitReader, BitWriter, StringWriter, BufferWriter (src/Strings.hh, src/Strings.cc).

C types (what the extraction drops: `owned_data` shared_ptr -- lifetime only; virtual destructor; std::string -> vstr stub):
  StringReader { const uint8_t* data; size_t length; size_t offset; }   BitReader likewise (length/offset in bits)
"""
import re
from vf.extract import Source, Unit
from vf.lex import Rule, ExtractionBreak, find_def, mask

EXPLANATION = ('Contracts on the extracted text of StringReader / StringWriter / BufferWriter / BitReader / BitWriter; E01 clauses (values, layout, '
               'cursor advance, frames) are active for C01, E02 clauses (throws iff out of range, slices inside the buffer, cursor never beyond the end) for C02; '
               'small callees are inlined, libc/std::string calls are bound to stub contracts whose preconditions are the memory-safety obligations.')
TRUSTED = ['stubs/vstr.h (std::string model), stubs/libc.h (memcpy/memcmp contracts), contracts/RW_*.h spec macros, contracts/C03_*.h (endian wrapper contracts, proved by C03)']
ASSUMPTIONS = ['buffer / string lengths are below 2^47 bytes (cbmc object size limit with the default object bits)',
               'std::string append/assign succeed (capacity model); resize beyond capacity throws length_error',
               'the result string of string-returning readers is empty on entry and can hold the whole source (allocation succeeds)',
               'bit-exact float obligations are answered by SAT back ends only']
DROPS = ('owned_data shared_ptr members (lifetime only); virtual destructors; std::string -> vstr out-parameters; references -> pointers; default arguments made explicit; '
         'implicit conversion operator / converting constructor of the endian wrappers made explicit (CONVT/CTORT) in the generated one-liners; '
         'for (;;) -> while (1) where a loop contract is attached; exceptions -> verif_exc flag with propagation after may-throw calls')

HH = 'src/Strings.hh'
CC = 'src/Strings.cc'
SR = r'class StringReader'

TYPES = '#include "contracts/RW_types.h"\n'


def check_members(src):
    """The C structs above mirror the data members of the classes; verify that against the class text."""
    text = src.text(HH)
    for cls, want in [(r'class StringReader', ['std::shared_ptr<std::string> owned_data;', 'const uint8_t* data;', 'size_t length;', 'size_t offset;']),
                      (r'class BitReader', ['std::shared_ptr<std::string> owned_data;', 'const uint8_t* data;', 'size_t length;', 'size_t offset;']),
                      (r'class BufferWriter', ['uint8_t* buf;', 'size_t buf_size;', 'size_t offset;']),
                      (r'class StringWriter', ['std::string data;']),
                      (r'class BitWriter', ['std::string data;', 'uint8_t last_byte_unset_bits;'])]:
        _, body, _, _ = find_def(text, cls, 'class')
        i = body.rfind('private:')
        if i < 0:
            raise ExtractionBreak('%s: no private section' % cls)
        got = [l.strip() for l in body[i + 8:].strip().rstrip('}').strip().split('\n') if l.strip()]
        if got != want:
            raise ExtractionBreak('%s: data members changed: %r' % (cls, got))


def M(name):           # C name of a StringReader method
    return 'StringReader_' + name


def reader_core(ctx, src):
    """pgetv/getv/peek/skip/... and the hand-assembled 24/48-bit accessors."""
    check_members(src)
    u = Unit(ctx, 'reader_core')
    u.raw('#include "stubs/libc.h"\n' + TYPES)
    call = lambda n: Rule(r'self->%s\((\s*\))?' % n, lambda mo: M(n) + ('(self)' if mo.group(1) else '(self, '), count='+', regex=True)
    callopt = lambda n: Rule(r'self->%s\((\s*\))?' % n, lambda mo: M(n) + ('(self)' if mo.group(1) else '(self, '), count=None, regex=True)
    # the trivial const observers may be called from any member (e.g. `size > this->remaining()` instead of the open-coded
    # subtraction): declared up front and lowered wherever they occur; they are inlined (not replaced) in every group
    SIMPLE = ('where', 'size', 'remaining', 'eof')
    u.raw(''.join('%s %s(const StringReader* self);\n' % ('bool' if n == 'eof' else 'size_t', M(n)) for n in SIMPLE))
    u.raw('#include "stubs/RW_pget.h"\n')
    _function = u.function

    # `return ... this->pget<W>(args) ...;` with W a byte-order wrapper type, inside another accessor (type-directed; stubs/RW_pget.h)
    def _pget_value(mo):
        pre, sg, bits, args, post = mo.group(1), mo.group(3), mo.group(4), mo.group(5), mo.group(6)
        W = mo.group(2)
        if ',' not in args:
            args += ', %d /* default argument sizeof(T) */' % (int(bits) // 8)
        return ('{ %sint%s_t verif_v = verif_pget_%s(self, %s); if (verif_exc) return 0; return %sverif_v%s; }' % (sg, bits, W, args, pre, post))
    PGET_VALUE = Rule(r'return ([^;]*?)self->pget<((?:be|le)_(u?)int(16|32|64)_t)>\(([^;()]*)\)([^;]*);', _pget_value, count=None, regex=True)

    def function_with_observers(*a, **kw):
        kw['rules'] = list(kw.get('rules') or []) + [PGET_VALUE] + [callopt(n) for n in SIMPLE]
        return _function(*a, **kw)
    u.function = function_with_observers
    # --- Strings.hh, inline members ---
    u.function(src, HH, r'inline const void\* pgetv\(size_t offset, size_t size\) const', scope=SR,
               new_header='const void* %s(const StringReader* self, size_t offset, size_t size)' % M('pgetv'), ret_zero='0')
    u.function(src, HH, r'inline const void\* getv\(size_t size, bool advance = true\)', scope=SR,
               new_header='const void* %s(StringReader* self, size_t size, bool advance)' % M('getv'),
               rules=[call('pgetv')], may_throw=[M('pgetv')], ret_zero='0')
    for w, ty in (('24', 'uint32_t'), ('48', 'uint64_t')):
        for e in 'bl':
            n = 'pget_u%s%s' % (w, e)
            u.function(src, HH, r'inline %s %s\(size_t offset\) const' % (ty, n), scope=SR,
                       new_header='%s %s(const StringReader* self, size_t offset)' % (ty, M(n)), ret_zero='0')
        for e in 'bl':
            n = 'get_u%s%s' % (w, e)
            u.function(src, HH, r'inline %s %s\(bool advance = true\)' % (ty, n), scope=SR,
                       new_header='%s %s(StringReader* self, bool advance)' % (ty, M(n)),
                       rules=[call('pget_u%s%s' % (w, e))], may_throw=[M('pget_u%s%s' % (w, e))], ret_zero='0')
        sty = ty[1:]
        for e in 'bl':
            n = 'get_s%s%s' % (w, e)
            u.function(src, HH, r'inline %s %s\(bool advance = true\)' % (sty, n), scope=SR,
                       new_header='%s %s(StringReader* self, bool advance)' % (sty, M(n)),
                       rules=[Rule(r'return ([^;]*?)self->get_u%s%s\(advance\)([^;]*);' % (w, e),
                                   r'{ %s verif_t = %s(self, advance); if (verif_exc) return 0; return \1verif_t\2; }' % (ty, M('get_u%s%s' % (w, e))), count=1, regex=True)])
            n = 'pget_s%s%s' % (w, e)
            u.function(src, HH, r'inline %s %s\(size_t offset\) const' % (sty, n), scope=SR,
                       new_header='%s %s(const StringReader* self, size_t offset)' % (sty, M(n)),
                       rules=[Rule(r'return ([^;]*?)self->pget_u%s%s\(offset\)([^;]*);' % (w, e),
                                   r'{ %s verif_t = %s(self, offset); if (verif_exc) return 0; return \1verif_t\2; }' % (ty, M('pget_u%s%s' % (w, e))), count=1, regex=True)])
    # --- Strings.cc ---
    def cc(name, sig, hdr, **kw):
        u.function(src, CC, sig, new_header=hdr, **kw)
    cc('where', r'size_t StringReader::where\(\) const', 'size_t %s(const StringReader* self)' % M('where'))
    cc('size', r'size_t StringReader::size\(\) const', 'size_t %s(const StringReader* self)' % M('size'))
    cc('remaining', r'size_t StringReader::remaining\(\) const', 'size_t %s(const StringReader* self)' % M('remaining'))
    cc('truncate', r'void StringReader::truncate\(size_t new_size\)', 'void %s(StringReader* self, size_t new_size)' % M('truncate'), ret_zero='')
    cc('go', r'void StringReader::go\(size_t offset\)', 'void %s(StringReader* self, size_t offset)' % M('go'))
    cc('skip', r'void StringReader::skip\(size_t bytes\)', 'void %s(StringReader* self, size_t bytes)' % M('skip'), ret_zero='')
    cc('eof', r'bool StringReader::eof\(\) const', 'bool %s(const StringReader* self)' % M('eof'))
    cc('peek', r'const char\* StringReader::peek\(size_t size\)', 'const char* %s(StringReader* self, size_t size)' % M('peek'), ret_zero='0')
    cc('skip_if', r'bool StringReader::skip_if\(const void\* data, size_t size\)',
       'bool %s(StringReader* self, const void* data, size_t size)' % M('skip_if'),
       rules=[callopt('remaining'), callopt('peek'), callopt('eof'), callopt('where'), callopt('size'), Rule('memcmp(', 'verif_memcmp(', count=None),
              # peek() may throw inside the condition: the lowered callee returns 0 with verif_exc set and the memcmp
              # stub ignores its arguments while an exception is in flight; both branches then re-raise first
              Rule('return false;', 'if (verif_exc) return 0; return false;', count=None),
              Rule('self->skip(size);', 'if (verif_exc) return 0; %s(self, size); if (verif_exc) return 0;' % M('skip'), count=None)])
    MC = Rule('memcpy(', 'verif_memcpy(', count='+')
    cc('pread', r'size_t StringReader::pread\(size_t offset, void\* data, size_t size\) const',
       'size_t %s(const StringReader* self, size_t offset, void* data, size_t size)' % M('pread_buf'), rules=[MC])
    cc('preadx', r'void StringReader::preadx\(size_t offset, void\* data, size_t size\) const',
       'void %s(const StringReader* self, size_t offset, void* data, size_t size)' % M('preadx_buf'), rules=[MC], ret_zero='')
    cc('read', r'size_t StringReader::read\(void\* data, size_t size, bool advance\)',
       'size_t %s(StringReader* self, void* data, size_t size, bool advance)' % M('read_buf'),
       rules=[Rule('self->pread(', M('pread_buf') + '(self, ', count=1)])
    cc('readx', r'void StringReader::readx\(void\* data, size_t size, bool advance\)',
       'void %s(StringReader* self, void* data, size_t size, bool advance)' % M('readx_buf'),
       rules=[Rule('self->preadx(', M('preadx_buf') + '(self, ', count=1)], may_throw=[M('preadx_buf')], ret_zero='')
    # sub-readers: `return StringReader(ptr, n);` -> out-parameter initialisation through the extracted constructor
    ctor_args = u.snippet(src, CC, r'StringReader::StringReader\(const void\* data, size_t size, size_t offset\)\s*:\s*data\((.*?)\),\s*length\((\w+)\),\s*offset\((\w+)\)\s*\{\s*\}', group=0)
    mo = re.search(r':\s*data\((.*)\),\s*length\((\w+)\),\s*offset\((\w+)\)', ctor_args, re.S)
    from vf.lex import rewrite_casts
    u.raw('static inline void StringReader_ctor(StringReader* self, const void* data, size_t size, size_t offset)\n{\n  self->data = %s;\n  self->length = %s;\n  self->offset = %s;\n}'
          % (rewrite_casts(mo.group(1)), mo.group(2), mo.group(3)))
    dflt = u.snippet(src, CC, r'StringReader::StringReader\(\)\s*:\s*owned_data\(nullptr\),\s*data\((\w+)\),\s*length\((\w+)\),\s*offset\((\w+)\)\s*\{\s*\}', group=0)
    mo = re.search(r'data\((\w+)\),\s*length\((\w+)\),\s*offset\((\w+)\)', dflt)
    u.raw('static inline void StringReader_ctor0(StringReader* self)\n{\n  self->data = %s;\n  self->length = %s;\n  self->offset = %s;\n}' % mo.groups())
    RETSUB = [Rule(r'return StringReader\(\);', '{ StringReader_ctor0(ret); return; }', regex=True),
              Rule(r'return StringReader\(\s*([^;]*?)\);', r'{ StringReader_ctor(ret, \1, 0); return; }', regex=True, count='+')]
    for n, sig in [('sub1', r'StringReader StringReader::sub\(size_t offset\) const'),
                   ('sub2', r'StringReader StringReader::sub\(size_t offset, size_t size\) const'),
                   ('subx1', r'StringReader StringReader::subx\(size_t offset\) const'),
                   ('subx2', r'StringReader StringReader::subx\(size_t offset, size_t size\) const')]:
        args = 'size_t offset' + (', size_t size' if n.endswith('2') else '')
        cc(n, sig, 'void %s(const StringReader* self, StringReader* ret, %s)' % (M(n), args), rules=RETSUB, ret_zero='')
    # bit sub-readers
    bctor = u.snippet(src, CC, r'BitReader::BitReader\(const void\* data, size_t size, size_t offset\)\s*:\s*data\((.*?)\),\s*length\((\w+)\),\s*offset\((\w+)\)\s*\{\s*\}', group=0)
    mo = re.search(r':\s*data\((.*)\),\s*length\((\w+)\),\s*offset\((\w+)\)', bctor, re.S)
    u.raw('static inline void BitReader_ctor(BitReader* self, const void* data, size_t size, size_t offset)\n{\n  self->data = %s;\n  self->length = %s;\n  self->offset = %s;\n}'
          % (rewrite_casts(mo.group(1)), mo.group(2), mo.group(3)))
    bdflt = u.snippet(src, CC, r'BitReader::BitReader\(\)\s*:\s*owned_data\(nullptr\),\s*data\((\w+)\),\s*length\((\w+)\),\s*offset\((\w+)\)\s*\{\s*\}', group=0)
    mo = re.search(r'data\((\w+)\),\s*length\((\w+)\),\s*offset\((\w+)\)', bdflt)
    u.raw('static inline void BitReader_ctor0(BitReader* self)\n{\n  self->data = %s;\n  self->length = %s;\n  self->offset = %s;\n}' % mo.groups())
    RETBIT = [Rule(r'return BitReader\(\);', '{ BitReader_ctor0(ret); return; }', regex=True),
              Rule(r'return BitReader\(\s*([^;]*?)\);', r'{ BitReader_ctor(ret, \1, 0); return; }', regex=True, count='+')]
    for n, sig in [('sub_bits1', r'BitReader StringReader::sub_bits\(size_t offset\) const'),
                   ('sub_bits2', r'BitReader StringReader::sub_bits\(size_t offset, size_t size\) const'),
                   ('subx_bits1', r'BitReader StringReader::subx_bits\(size_t offset\) const'),
                   ('subx_bits2', r'BitReader StringReader::subx_bits\(size_t offset, size_t size\) const')]:
        args = 'size_t offset' + (', size_t size' if n.endswith('2') else '')
        cc(n, sig, 'void %s(const StringReader* self, BitReader* ret, %s)' % (M(n), args), rules=RETBIT, ret_zero='')
    return u



SW = r'class StringWriter'
BW = r'class BufferWriter'


def tmpl_units(ctx, src):
    """get<T>/pget<T> (StringReader), put<T>/pput<T> (StringWriter, BufferWriter): macro-parameterised by T."""
    u = Unit(ctx, 'rw_tmpl')
    u.function(src, HH, r'const T& pget\(size_t offset, size_t size = sizeof\(T\)\) const', scope=SR,
               new_header='static inline const T* PGET(T)(const StringReader* self, size_t offset, size_t size)',
               rules=[Rule(r'return \*\(\(const T\*\)\(self->pgetv\(([^;]*)\)\)\);',
                           r'return ((const T*)(%s(self, \1)));' % M('pgetv'), count=1, regex=True)])
    u.function(src, HH, r'const T& get\(bool advance = true, size_t size = sizeof\(T\)\)', scope=SR,
               new_header='static inline const T* GET(T)(StringReader* self, bool advance, size_t size)',
               rules=[Rule(r'const T& ret = self->pget<T>\(([^;]*)\);',
                           lambda mo: 'const T* ret = PGET(T)(self, %s); if (verif_exc) return 0;'
                           % (mo.group(1) if ',' in mo.group(1) else mo.group(1) + ', sizeof(T) /* default argument */'), count=1, regex=True)])
    # StringWriter
    u.function(src, HH, r'void put\(const T& v\)', scope=SW,
               new_header='static inline void SWPUT(T)(StringWriter* self, const T* v)',
               rules=[Rule('self->data.append(((const char*)(&v)), sizeof(v));', 'vstr_append(&self->data, ((const char*)(v)), sizeof(*v));', count=1)])
    u.function(src, HH, r'void pput\(size_t offset, const T& v\)', scope=SW,
               new_header='static inline void SWPPUT(T)(StringWriter* self, size_t offset, const T* v)', ret_zero='',
               rules=[Rule('self->data.size()', 'vstr_size(&self->data)', count=None),
                      Rule(r'self->extend_to\(([^;,]*)\);', r"StringWriter_extend_to(self, \1, '\\0' /* default argument */); if (verif_exc) return;", count=None, regex=True),
                      Rule(r'self->extend_by\(([^;,]*)\);', r"StringWriter_extend_by(self, \1, '\\0' /* default argument */); if (verif_exc) return;", count=None, regex=True),
                      Rule(r"self->data\.resize\(([^;]*?), ('[^']*')\);", r"vstr_resize_x(&self->data, \1, \2); if (verif_exc) return;", count=None, regex=True),
                      Rule(r'memcpy\(self->data\.data\(\) \+ ([^,;]*), &v, sizeof\(v\)\);', r'verif_memcpy(vstr_data(&self->data) + \1, v, sizeof(*v));', count=None, regex=True)])
    # BufferWriter
    # type-directed (the reference parameter `const T& v` is the pointer `const T* v` in C): whatever the body does with v --
    # forward to write/pwrite or copy it itself -- `&v` is the pointer and sizeof(v) the pointee size
    BWV = [Rule(r'self->pwrite\(([^;]*?), &v, sizeof\((?:v|T)\)\);', r'BufferWriter_pwrite(self, \1, v, sizeof(*v)); if (verif_exc) return;', count=None, regex=True),
           Rule(r'self->write\(&v, sizeof\((?:v|T)\)\);', r'BufferWriter_write(self, v, sizeof(*v)); if (verif_exc) return;', count=None, regex=True),
           Rule(r'\bmemcpy\(([^;]*?), &v, sizeof\((?:v|T)\)\);', r'verif_memcpy(\1, v, sizeof(*v));', count=None, regex=True),
           Rule(r'sizeof\(v\)', 'sizeof(*v)', count=None, regex=True),
           Rule(r'(?<![\w.>])&v\b', 'v', count=None, regex=True)]
    u.function(src, HH, r'void put\(const T& v\)', scope=BW,
               new_header='static inline void BWPUT(T)(BufferWriter* self, const T* v)', rules=BWV, ret_zero='')
    u.function(src, HH, r'void pput\(size_t offset, const T& v\)', scope=BW,
               new_header='static inline void BWPPUT(T)(BufferWriter* self, size_t offset, const T* v)', rules=BWV, ret_zero='')
    u.write(suffix='.inc')
    return u


# type-directed rewrites of std::string members on the member `data` (a vstr in the C mirror)
DATA_MEMBERS = [Rule(r'self->data\.back\(\)', 'self->data.data[vstr_size(&self->data) - 1]', count=None, regex=True),
                Rule(r'self->data\.front\(\)', 'self->data.data[0]', count=None, regex=True),
                Rule(r'self->data\.empty\(\)', '(vstr_size(&self->data) == 0)', count=None, regex=True),
                Rule(r'self->data\.clear\(\)', 'vstr_clear(&self->data)', count=None, regex=True),
                Rule(r'self->data\.pop_back\(\)', 'vstr_pop_back(&self->data)', count=None, regex=True),
                Rule(r'self->data\.at\(([^;)]*)\)', r'self->data.data[\1]', count=None, regex=True)]


def writer_core(ctx, src):
    u = Unit(ctx, 'writer_core')
    u.raw(TYPES + '#include "stubs/vstr.h"\n#include "contracts/RW_wtypes.h"\n')
    u.function(src, HH, r'inline void pwrite\(size_t offset, const void\* data, size_t size\)', scope=BW,
               new_header='void BufferWriter_pwrite(BufferWriter* self, size_t offset, const void* data, size_t size)',
               rules=[Rule('memcpy(', 'verif_memcpy(', count=1)], ret_zero='')
    u.function(src, HH, r'inline void write\(const void\* data, size_t size\)', scope=BW,
               new_header='void BufferWriter_write(BufferWriter* self, const void* data, size_t size)',
               rules=[Rule('self->pwrite(', 'BufferWriter_pwrite(self, ', count=1)], may_throw=['BufferWriter_pwrite'], ret_zero='')
    u.function(src, HH, r'inline void extend_to\(size_t size, char v = \'_+\'\)', scope=SW,
               new_header='void StringWriter_extend_to(StringWriter* self, size_t size, char v)',
               rules=[Rule('self->data.resize(size, v);', 'vstr_resize_x(&self->data, size, v);', count=1)])
    u.function(src, HH, r'inline void extend_by\(size_t size, char v = \'_+\'\)', scope=SW,
               new_header='void StringWriter_extend_by(StringWriter* self, size_t size, char v)',
               rules=[Rule('self->data.resize(self->data.size() + size, v);', 'vstr_resize_x(&self->data, vstr_size(&self->data) + size, v);', count=1)])
    u.function(src, CC, r'size_t StringWriter::size\(\) const', new_header='size_t StringWriter_size(const StringWriter* self)',
               rules=[Rule('self->data.size()', 'vstr_size(&self->data)', count=1)])
    u.function(src, CC, r'void StringWriter::write\(const void\* data, size_t size\)',
               new_header='void StringWriter_write(StringWriter* self, const void* data, size_t size)',
               rules=[Rule('self->data.append(', 'vstr_append(&self->data, ', count=1)])
    # the std::string overload: the whole block (data(), size()) is appended -- whatever way it is written; an append of data.c_str()
    # stops at the first NUL byte (verif_cstrlen)
    u.function(src, CC, r'void StringWriter::write\(const string& data\)',
               new_header='void StringWriter_write_str(StringWriter* self, const vstr* data)',
               rules=[Rule(r'self->data(?:\.append\(| \+= )data\.c_str\(\)\)?;', 'vstr_append(&self->data, data->data, verif_cstrlen(data->data, data->size));', count=None, regex=True),
                      Rule(r'self->data(?:\.append\(| \+= )data\)?;', 'vstr_append(&self->data, data->data, data->size);', count=None, regex=True),
                      Rule(r'self->write\(data\.data\(\), data\.size\(\)\);', 'StringWriter_write(self, data->data, data->size);', count=None, regex=True)])
    # bit writer / reader
    u.function(src, CC, r'size_t BitWriter::size\(\) const', new_header='size_t BitWriter_size(const BitWriter* self)',
               rules=[Rule('self->data.size()', 'vstr_size(&self->data)', count=1)])
    u.function(src, CC, r'void BitWriter::write\(bool v\)', new_header='void BitWriter_write(BitWriter* self, bool v)',
               rules=DATA_MEMBERS + [Rule(r'self->data\[', 'self->data.data[', count=None, regex=True), Rule('self->data.size()', 'vstr_size(&self->data)', count=None),
                      Rule('self->data.push_back(', 'vstr_push_back(&self->data, ', count=None)])
    u.function(src, CC, r'void BitWriter::truncate\(size_t size\)', new_header='void BitWriter_truncate(BitWriter* self, size_t size)',
               rules=DATA_MEMBERS + [Rule('self->data.size()', 'vstr_size(&self->data)', count='+'),
                      Rule(r'self->data\.resize\(([^;,]*)\);', r"vstr_resize_x(&self->data, \1, '\\0');", count=None, regex=True),
                      Rule(r'self->data\[', 'self->data.data[', count=None, regex=True)], ret_zero='')
    u.function(src, CC, r'uint64_t BitReader::pread\(size_t start_offset, uint8_t size\)',
               new_header='uint64_t BitReader_pread(BitReader* self, size_t start_offset, uint8_t size)', ret_zero='0',
               nloops=1, loops={1: BITREADER_LOOP})
    u.function(src, CC, r'uint64_t BitReader::read\(uint8_t size, bool advance\)',
               new_header='uint64_t BitReader_read(BitReader* self, uint8_t size, bool advance)',
               rules=[Rule('self->pread(', 'BitReader_pread(self, ', count=1)], may_throw=['BitReader_pread'], ret_zero='0')
    u.function(src, CC, r'void BitReader::skip\(size_t bits\)', new_header='void BitReader_skip(BitReader* self, size_t bits)')
    u.function(src, CC, r'void BitReader::go\(size_t offset\)', new_header='void BitReader_go(BitReader* self, size_t offset)')
    return u


BITREADER_LOOP = """
__CPROVER_assigns(ret_bits, ret)
__CPROVER_loop_invariant(ret_bits <= size)
__CPROVER_loop_invariant(ret_bits < 64 ==> (ret >> ret_bits) == 0)
__CPROVER_loop_invariant(g_bit < ret_bits ==> ((ret >> (ret_bits - 1 - g_bit)) & 1) == BITAT(self->data, start_offset + g_bit))
__CPROVER_decreases(size - ret_bits)
"""


def reader_str(ctx, src):
    """string-returning readers and the cstr/line loops (std::string -> vstr out-parameter)."""
    u = Unit(ctx, 'reader_str')
    u.raw('#include "stubs/vstr.h"\n')
    RS = [Rule(r'return string\(\);', '{ vstr_clear(ret); return; }', regex=True),
          Rule(r'return string\(\s*([^;]*?)\);', r'{ vstr_assign(ret, \1); return; }', regex=True, count='+')]
    u.function(src, CC, r'string StringReader::pread\(size_t offset, size_t size\) const',
               new_header='void %s(const StringReader* self, vstr* ret, size_t offset, size_t size)' % M('pread_str'), rules=RS)
    u.function(src, CC, r'string StringReader::preadx\(size_t offset, size_t size\) const',
               new_header='void %s(const StringReader* self, vstr* ret, size_t offset, size_t size)' % M('preadx_str'), rules=RS, ret_zero='')
    u.function(src, CC, r'string StringReader::read\(size_t size, bool advance\)',
               new_header='void %s(StringReader* self, vstr* ret, size_t size, bool advance)' % M('read_str'),
               rules=[Rule(r'\bstring ret = self->pread\(', '%s(self, ret, ' % M('pread_str'), count=None, regex=True),
                      Rule('ret.size()', 'vstr_size(ret)', count=None), Rule('return ret;', 'return;', count='+')])
    u.function(src, CC, r'string StringReader::readx\(size_t size, bool advance\)',
               new_header='void %s(StringReader* self, vstr* ret, size_t size, bool advance)' % M('readx_str'),
               rules=[Rule(r'\bstring ret = self->preadx\(', '%s(self, ret, ' % M('preadx_str'), count=None, regex=True),
                      Rule('ret.size()', 'vstr_size(ret)', count=None), Rule('return ret;', 'return;', count='+')],
               may_throw=[M('preadx_str')], ret_zero='')
    P8 = M('pget_s8')
    # type-directed rewrites for a function whose result is the local `std::string ret` (out-parameter `vstr* ret`) and that
    # calls other reader members; every rule tolerates edits of the surrounding code (a changed body must reach the verifier)
    def STR(*calls):
        rs = [Rule(r'\bstring ret;', '', count=None, regex=True),
              Rule(r'\bret\.size\(\)', 'vstr_size(ret)', count=None, regex=True),
              Rule(r'\bret\.empty\(\)', '(vstr_size(ret) == 0)', count=None, regex=True),
              Rule(r'\bret \+= (\w+);', r'vstr_push_back(ret, \1);', count=None, regex=True),
              Rule(r'\bret\.push_back\(', 'vstr_push_back(ret, ', count=None, regex=True),
              Rule(r'\bret\.pop_back\(\);', 'vstr_pop_back(ret);', count=None, regex=True),
              Rule('ends_with(ret, "\\r")', "vstr_ends_with_c(ret, '\\r')", count=None),
              Rule(r'\bstring ret = self->(pget_cstr|pread|preadx)\(', lambda mo: '%s(self, ret, ' % M({'pget_cstr': 'pget_cstr', 'pread': 'pread_str', 'preadx': 'preadx_str'}[mo.group(1)]), count=None, regex=True),
              Rule(r'return ret;', 'return;', count='+')]
        for c in calls:
            rs.append(Rule(r'self->%s\((\s*\))?' % c, (lambda c: lambda mo: M(c) + ('(self)' if mo.group(1) else '(self, '))(c), count=None, regex=True))
        return rs
    THROWERS = [P8, M('pget_cstr'), M('preadx_str')]
    u.function(src, CC, r'string StringReader::pget_cstr\(size_t offset\) const',
               new_header='void %s(const StringReader* self, vstr* ret, size_t offset)' % M('pget_cstr'), ret_zero='',
               rules=STR('pget_s8', 'eof'), may_throw=THROWERS, nloops=1, loops={1: CSTR_LOOP})
    u.function(src, CC, r'string StringReader::get_cstr\(bool advance\)',
               new_header='void %s(StringReader* self, vstr* ret, bool advance)' % M('get_cstr'), ret_zero='',
               rules=STR('pget_s8', 'eof'), may_throw=THROWERS)
    u.function(src, CC, r'string StringReader::get_line\(bool advance\)',
               new_header='void %s(StringReader* self, vstr* ret, bool advance)' % M('get_line'), ret_zero='',
               rules=STR('pget_s8', 'eof'), may_throw=THROWERS, nloops=1, loops={1: LINE_LOOP})
    return u


CSTR_LOOP = """
__CPROVER_assigns(verif_exc, ret->size, __CPROVER_object_whole(ret->data))
__CPROVER_loop_invariant(verif_exc == 0)
__CPROVER_loop_invariant(ret->size <= ret->cap && (offset <= self->length ==> ret->size <= self->length - offset))
__CPROVER_loop_invariant(g_vk < ret->size ==> (ret->data[g_vk] == (char)self->data[offset + g_vk] && self->data[offset + g_vk] != 0))
__CPROVER_decreases(self->length - offset - ret->size)
"""
LINE_LOOP = """
__CPROVER_assigns(verif_exc, ret->size, __CPROVER_object_whole(ret->data))
__CPROVER_loop_invariant(verif_exc == 0)
__CPROVER_loop_invariant(ret->size <= self->length - self->offset)
__CPROVER_loop_invariant(g_vk < ret->size ==> (ret->data[g_vk] == (char)self->data[self->offset + g_vk] && self->data[self->offset + g_vk] != '\\n'))
__CPROVER_decreases(self->length - self->offset - ret->size)
"""


def oneliners(ctx, src):
    """The get_*/pget_* (reader) and put_*/pput_* (both writers) one-liners, grouped by the type they instantiate the
    templates with. Returns {W: {'file':..., 'fns': {...}}}.  Names, wrapper types, argument lists all come from the class text;
    made explicit: the default argument size = sizeof(T), the implicit conversion operator (CONVT) / converting ctor (CTORT)."""
    text = src.text(HH)
    out = {}

    def add(W, code, key, cname, ret):
        d = out.setdefault(W, {'code': [], 'fns': []})
        d['code'].append(code)
        d['fns'].append((key, cname, ret))
    _, rbody, _, _ = find_def(text, SR, 'class')
    rx = re.compile(r'inline (\w+) ((get|pget)_\w+)\((bool advance = true|size_t offset)\) (?:const )?\{ return this->(get|pget)<(\w+)>\((advance|offset)\); \}')
    n = 0
    for mo in rx.finditer(rbody):
        ret, name, kind, arg, kind2, W, a2 = mo.groups()
        if kind != kind2 or (kind == 'get') != (a2 == 'advance'):
            raise ExtractionBreak('one-liner %s has an unexpected shape' % name)
        n += 1
        if kind == 'get':
            code = ('%s StringReader_%s(StringReader* self, bool advance)\n{ const %s* verif_t = GET(%s)(self, advance, sizeof(%s)); '
                    'if (verif_exc) return 0; return CONVT(verif_t); }' % (ret, name, W, W, W))
        else:
            code = ('%s StringReader_%s(const StringReader* self, size_t offset)\n{ const %s* verif_t = PGET(%s)(self, offset, sizeof(%s)); '
                    'if (verif_exc) return 0; return CONVT(verif_t); }' % (ret, name, W, W, W))
        add(W, code, 'rd_' + kind, 'StringReader_' + name, ret)
    if n != 36:
        raise ExtractionBreak('expected 36 typed reader one-liners, found %d' % n)
    wx = re.compile(r'inline void ((put|pput)_\w+)\((size_t offset, )?(\w+) v\) \{ this->(put|pput)<(\w+)>\((offset, )?v\); \}')
    for cls, scope, pre in (('StringWriter', SW, 'SW'), ('BufferWriter', BW, 'BW')):
        _, wbody, _, _ = find_def(text, scope, 'class')
        n = 0
        for mo in wx.finditer(wbody):
            name, kind, off, vt, kind2, W, off2 = mo.groups()
            if kind != kind2 or bool(off) != bool(off2) or bool(off) != (kind == 'pput'):
                raise ExtractionBreak('one-liner %s::%s has an unexpected shape' % (cls, name))
            n += 1
            if kind == 'put':
                code = ('void %s_%s(%s* self, %s v)\n{ %s verif_w; CTORT(&verif_w, v); %sPUT(%s)(self, &verif_w); }' % (cls, name, cls, vt, W, pre, W))
            else:
                code = ('void %s_%s(%s* self, size_t offset, %s v)\n{ %s verif_w; CTORT(&verif_w, v); %sPPUT(%s)(self, offset, &verif_w); }'
                        % (cls, name, cls, vt, W, pre, W))
            add(W, code, pre.lower() + '_' + kind, '%s_%s' % (cls, name), vt)
        if n != 68:
            raise ExtractionBreak('expected 68 typed %s one-liners, found %d' % (cls, n))
    import os
    os.makedirs(ctx.build_dir, exist_ok=True)
    for W, d in out.items():
        pth = os.path.join(ctx.build_dir, 'x_one__%s.inc' % W)
        with open(pth, 'w') as f:
            f.write('/* GENERATED from the one-liner accessors of %s on every run */\n' % HH + '\n'.join(d['code']) + '\n')
        d['file'] = pth
    return out

# ---------------------------------------------------------------------------------------------------------------------
from vf.pipeline import Group, Replay, ALL_LIB

LIBC = ['verif_memcpy', 'verif_memcmp']


def plan(ctx, pid):
    from props import C03 as c03
    src = Source(ctx.src)
    leaf = c03.leaf_unit(ctx, src)
    leaf.write()
    core = reader_core(ctx, src)
    core.write()
    ctx.functions_under_contract = list(core.functions)
    D = ['PROP_' + pid]
    groups = []
    H = 'harness/RW/reader_core.c'
    RP = lambda mode: Replay(driver='RW/reader.cc', mode=mode, sources=ALL_LIB, small_define='VERIF_SMALL')

    def G(fn, enforce=None, replace=None, **kw):
        g = Group(name='StringReader.' + fn, harness=H, entry='h_' + fn, function='StringReader::' + fn,
                  enforce=enforce or ('StringReader_' + fn), replace=replace or [], defines=list(D), replay=RP(fn), **kw)
        groups.append(g)
        return g
    if pid == 'C01':
        # the sign-extending 24/48-bit accessors are proved against the CONTRACT of ext24 / ext48 (replaced calls); the two contracts
        # are discharged here as well (same groups as in C03), so that C01 stands on its own for the helpers its anchors name
        for fn in ('ext24', 'ext48'):
            groups.append(Group(name='Encoding.' + fn, harness='harness/C03/leaf.c', entry='h_' + fn, function=fn, enforce=fn,
                                clause_note='contracts/C03_leaf.h: low bits preserved, bits above are copies of the sign bit (bit 23 / bit 47)',
                                replay=Replay(mode=fn, **c03.RP)))
    G('pgetv')
    G('getv')
    for w in ('24', '48'):
        for e in 'bl':
            G('pget_u%s%s' % (w, e))
            G('get_u%s%s' % (w, e), replace=[])
            G('pget_s%s%s' % (w, e), replace=['ext' + w])
            G('get_s%s%s' % (w, e), replace=['ext' + w])
    for fn in ['where', 'size', 'remaining', 'eof', 'go', 'truncate', 'skip', 'peek']:
        G(fn)
    G('skip_if', replace=['verif_memcmp'])
    G('pread_buf', replace=['verif_memcpy'])
    G('preadx_buf', replace=['verif_memcpy'])
    G('read_buf', replace=['verif_memcpy'])
    G('readx_buf', replace=['verif_memcpy'])
    tm = tmpl_units(ctx, src)
    wc = writer_core(ctx, src)
    wc.write()
    rs = reader_str(ctx, src)
    rs.write()
    ones = oneliners(ctx, src)
    ctx.functions_under_contract += tm.functions + wc.functions + rs.functions
    HS = 'harness/RW/str.c'
    VS = ['vstr_assign', 'vstr_append', 'vstr_resize_x']

    def S(name, entry, enforce, function, replace=None, **kw):
        g = Group(name=name, harness=HS, entry=entry, function=function, enforce=enforce, replace=replace or [], defines=list(D),
                  replay=Replay(driver='RW/reader.cc', mode=entry[2:], sources=ALL_LIB, small_define='VERIF_SMALL'), **kw)
        groups.append(g)
        return g
    for fn in ['pread_str', 'preadx_str', 'read_str', 'readx_str']:
        S('StringReader.' + fn, 'h_' + fn, 'StringReader_' + fn, 'StringReader::' + fn.replace('_str', '') + ' (std::string form)', replace=['vstr_assign'])
    S('StringReader.pget_cstr', 'h_pget_cstr', 'StringReader_pget_cstr', 'StringReader::pget_cstr', loops=True, kind='loop-contract', timeout=300, fallback_unwind=50)
    S('StringReader.get_cstr', 'h_get_cstr', 'StringReader_get_cstr', 'StringReader::get_cstr', replace=['StringReader_pget_cstr'])
    S('StringReader.get_line', 'h_get_line', 'StringReader_get_line', 'StringReader::get_line', loops=True, kind='loop-contract', timeout=300, fallback_unwind=50)
    S('BufferWriter.pwrite', 'h_bw_pwrite', 'BufferWriter_pwrite', 'BufferWriter::pwrite', replace=['verif_memcpy'])
    S('BufferWriter.write', 'h_bw_write', 'BufferWriter_write', 'BufferWriter::write', replace=['verif_memcpy'])
    S('StringWriter.size', 'h_sw_size', 'StringWriter_size', 'StringWriter::size')
    S('StringWriter.write', 'h_sw_write', 'StringWriter_write', 'StringWriter::write', replace=['vstr_append'])
    S('StringWriter.write(string)', 'h_sw_write_str', 'StringWriter_write_str', 'StringWriter::write(const std::string&)', replace=['vstr_append'])
    S('StringWriter.extend_to', 'h_sw_extend_to', 'StringWriter_extend_to', 'StringWriter::extend_to', replace=['vstr_resize_x'])
    S('StringWriter.extend_by', 'h_sw_extend_by', 'StringWriter_extend_by', 'StringWriter::extend_by', replace=['vstr_resize_x'])
    if pid == 'C01':
        S('BitWriter.size', 'h_bitw_size', 'BitWriter_size', 'BitWriter::size')
        S('BitWriter.write', 'h_bitw_write', 'BitWriter_write', 'BitWriter::write')
        S('BitWriter.truncate', 'h_bitw_truncate', 'BitWriter_truncate', 'BitWriter::truncate', replace=['vstr_resize_x'])
        S('BitReader.pread', 'h_bitr_pread', 'BitReader_pread', 'BitReader::pread', loops=True, kind='loop-contract', fallback_unwind=66)
        S('BitReader.read', 'h_bitr_read', 'BitReader_read', 'BitReader::read', replace=['BitReader_pread'])
    # ---- typed one-liners: one group per accessor; the specification (width, signedness, byte order) comes from the
    # accessor's NAME (u16b = unsigned 16-bit big-endian), the instantiated type T from the source text ------------------
    from props import C03 as c03
    us, _ = c03.spec_unit(ctx, src)
    us.write()
    um, ub, ui, aliases = c03.ce_units(ctx, src)
    amap = {a[0]: a for a in aliases}
    HT = 'harness/RW/typed.c'
    import os
    NAT = {'uint8_t': 8, 'int8_t': 8, 'uint16_t': 16, 'int16_t': 16, 'uint32_t': 32, 'int32_t': 32, 'uint64_t': 64, 'int64_t': 64, 'float': 32, 'double': 64}
    KIND = {'rd_get': 1, 'rd_pget': 2, 'sw_put': 3, 'sw_pput': 4, 'bw_put': 5, 'bw_pput': 6}
    byname = {}
    for Wt in sorted(ones):
        d = ones[Wt]
        if Wt in amap:
            name, cls, ex, st = amap[Wt]
            st = st or ex
            isfT = ex in ('float', 'double')
            tdef = ['T=' + Wt, 'NATIVE=0', 'CE=' + name, 'CLS=' + cls, 'ExposedT=' + ex, 'StoredT=' + st, 'W=%d' % NAT[ex],
                    'NAMED=%d' % {'big_endian': 1, 'little_endian': 2, 'reverse_endian': 3}[cls], 'ISFLOAT=%d' % isfT]
            if not isfT:
                pl = c03.PROMOTE[ex]
                p1 = c03.common(ex, 'int')
                ti = c03.TINFO
                tdef += ['PL=' + pl, 'PL_SIGNED=%d' % ti[pl][1], 'PL_BITS=%d' % ti[pl][4], 'PL_MAX=' + ti[pl][3],
                         'P1=' + p1, 'P1_SIGNED=%d' % ti[p1][1], 'P1_MIN=' + ti[p1][2], 'P1_MAX=' + ti[p1][3]]
        elif Wt in NAT:
            tdef = ['T=' + Wt, 'NATIVE=1', 'ExposedT=' + Wt]
            isfT = Wt in ('float', 'double')
        else:
            raise ExtractionBreak('one-liner instantiates an unknown type %s' % Wt)
        tdef += ['ONE_INC="%s"' % os.path.basename(d['file'])]
        for key, cname, rett in d['fns']:
            cls_, meth = cname.split('_', 1)
            mo = re.match(r'^p?(?:get|put)_([usf])(8|16|32|64)([bl]?)$', meth)
            if not mo or (mo.group(2) != '8' and not mo.group(3)):
                continue     # native-order and reverse-endian forms: outside the b-/l-suffixed set the property names
            sg, wd, en = mo.groups()
            spec_t = {'u': 'uint%s_t', 's': 'int%s_t'}.get(sg, '%s') % wd if sg != 'f' else {'32': 'float', '64': 'double'}[wd]
            sdef = ['SPEC_T=' + spec_t, 'SPEC_W=' + wd, 'SPEC_BIG=%d' % (en != 'l'), 'SPEC_FLOAT=%d' % (sg == 'f'), 'FKIND=%d' % KIND[key], 'FN=' + cname]
            isf = sg == 'f' or isfT
            g = Group(name='%s.%s' % (cls_, meth), harness=HT, entry='h_fn', function='%s::%s' % (cls_, meth), enforce=cname,
                      replace={'sw_put': ['vstr_append'], 'sw_pput': ['vstr_resize_x', 'verif_memcpy'], 'bw_put': ['verif_memcpy'],
                               'bw_pput': ['verif_memcpy']}.get(key, []),
                      defines=list(D) + tdef + sdef,
                      replay=Replay(driver='RW/typed.cc', mode=key, extra=[meth], sources=ALL_LIB, small_define='VERIF_SMALL'))
            if isf:
                g.engines = ['minisat', 'cadical']      # bit-exact float moves: SAT only (see C03)
                g.stage1 = 30
            groups.append(g)
            byname[cname] = (tdef, sdef, isf)
    if pid == 'C01':
        # put_X ; get_X round trips (lemma over the two contracts), for every suffix that has both
        for cname in sorted(byname):
            if not cname.startswith('StringWriter_put_'):
                continue
            sfx = cname[len('StringWriter_put_'):]
            rd = 'StringReader_get_' + sfx
            if rd not in byname or byname[rd][0] != byname[cname][0]:
                continue
            tdef, sdef, isf = byname[cname]
            g = Group(name='roundtrip.put_get[%s]' % sfx, harness=HT, entry='l_roundtrip_sw', function='%s / %s' % (cname, rd),
                      replace=[cname, rd], defines=['PROP_C01', 'PROP_C02'] + tdef + [x for x in sdef if not x.startswith('FKIND') and not x.startswith('FN=')] +
                      ['FKIND=7', 'FN=' + cname, 'FN2=' + rd], kind='lemma', min_post=3)
            if isf:
                g.engines = ['minisat', 'cadical']
                g.stage1 = 30
            groups.append(g)
    if ctx.tier == 'thorough':
        # "regardless of host byte order": every typed accessor again under a big-endian host model
        import copy
        extra = []
        for g in groups:
            if g.harness == HT:
                g2 = copy.deepcopy(g)
                g2.big_endian = True
                extra.append(g2)
        groups += extra
    # the templates themselves with an explicit (symbolic) size argument
    for fn in ('tmpl_get', 'tmpl_pget'):
        groups.append(Group(name='StringReader.%s<T>(size)' % fn[5:], harness=HS, entry='h_' + fn, function='StringReader::%s<T> with explicit size' % fn[5:],
                            enforce='StringReader_%s__int8_t' % fn[5:], defines=list(D),
                            replay=Replay(driver='RW/reader.cc', mode=fn, sources=ALL_LIB, small_define='VERIF_SMALL')))
    if pid == 'C02':
        for fn in ['sub1', 'sub2', 'subx1', 'subx2', 'sub_bits1', 'sub_bits2', 'subx_bits1', 'subx_bits2']:
            G(fn)
    return groups
