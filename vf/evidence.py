"""Evidence writer (DESIGN.md 3.8)."""
import json
import os
import re

from .pipeline import VERIF

COMMON_TRUSTED = [
    'cbmc 6.11.0 / goto-cc / goto-instrument --dfcc (contract instrumentation, symbolic execution, bit-blasting)',
    'the SAT/SMT back end that answered each obligation (named per obligation)',
    '/verif/vf/lex.py + extract.py: the mechanical C++ -> C rewriter (must-fire rule counts, residue scan, compile gate)',
]
COMMON_ASSUMPTIONS = [
    'machine model: LP64, two\'s-complement, x86-64 type sizes as modelled by cbmc; unsigned wrap-around is defined behaviour',
    'templates are instantiated textually only at the listed types; C++ overload resolution and implicit conversions are resolved by the extraction table',
]


def _includes(path, seen):
    if path in seen or not os.path.exists(path):
        return
    seen.add(path)
    try:
        t = open(path).read()
    except OSError:
        return
    for m in re.finditer(r'#\s*include\s+"([^"]+)"', t):
        for base in (os.path.dirname(path), VERIF):
            p = os.path.normpath(os.path.join(base, m.group(1)))
            if p.startswith(VERIF) and os.path.exists(p) and '/build/' not in p:
                _includes(p, seen)


def scan_assumes(groups):
    seen = set()
    for g in groups:
        _includes(os.path.join(VERIF, g.harness), seen)
    out = []
    for p in sorted(seen):
        for i, line in enumerate(open(p).read().split('\n'), 1):
            if '__CPROVER_assume' in line and not line.strip().startswith('//'):
                out.append('%s:%d: %s' % (os.path.relpath(p, VERIF), i, line.strip()[:200]))
    return out


def write(ctx, mod, groups, wall, nviol):
    per = []
    unb_total = unb_ok = b_total = b_ok = 0
    clause_total = clause_ok = 0
    solver_time = 0.0
    samples = []
    for g in groups:
        obl = g.result.get('obligations', [])
        bounded = g.kind == 'bounded'
        ok = sum(1 for o in obl if o['status'] == 'SUCCESS')
        if bounded:
            b_total += len(obl)
            b_ok += ok
        else:
            unb_total += len(obl)
            unb_ok += ok
            cl = [o for o in obl if 'postcondition' in o['name'] or 'assertion' in o['name']]
            clause_total += len(cl)
            clause_ok += sum(1 for o in cl if o['status'] == 'SUCCESS')
        solver_time += g.result.get('seconds', 0) or 0
        per.append({
            'group': '%s/%s%s' % (ctx.pid, g.name, '@big-endian-host' if g.big_endian else ''),
            'function': g.function,
            'kind': g.kind,
            'bound': g.bound if bounded else None,
            'enforced_contract': g.enforce,
            'callees_replaced_by_contract': g.replace,
            'loop_contracts': g.loops,
            'backend': g.result.get('engine'),
            'second_backend': g.result.get('second_engine'),
            'seconds': g.result.get('seconds'),
            'obligations': len(obl),
            'discharged': ok,
            'failed': [o['name'] for o in obl if o['status'] != 'SUCCESS'],
            'known_finding': g.result.get('known_finding'),
            'undecided': g.result.get('undecided'),
            'skipped': g.result.get('skipped'),
        })
        if len(samples) < 6 and obl:
            posts = [o for o in obl if 'postcondition' in o['name'] or 'assertion' in o['name']] or obl
            o = posts[0]
            samples.append({'obligation': '%s/%s/%s' % (ctx.pid, g.name, o['name']), 'description': o['description'],
                            'status': o['status'], 'contract_note': g.clause_note,
                            'where': '%s:%s' % (os.path.relpath(o['file'], VERIF) if o['file'].startswith('/') else o['file'], o['line']),
                            'cmd': [g.result.get('goto_instrument'), g.result.get('cbmc')]})
    level = getattr(mod, 'LEVEL', 'proof')
    funcs = getattr(ctx, 'functions_under_contract', [])
    cov = {
        'obligations': unb_total,
        'discharged': unb_ok,
        'contract_clause_obligations': {'total': clause_total, 'discharged': clause_ok, 'note': 'the ensures clauses and lemma assertions among the obligations; the remainder are frame (assigns), pointer/bounds/overflow safety checks and the checks goto-instrument --dfcc generates for its own instrumentation'},
        'checker_cmd': 'cd /verif && ./check %s --tier %s   (per group: goto-cc --function <h>; goto-instrument --dfcc <h> '
                       '--enforce-contract <f> [--replace-call-with-contract <g>] [--apply-loop-contracts]; cbmc <checks> '
                       '[portfolio: minisat | cadical | --cvc5 | --z3])' % (ctx.pid, ctx.tier),
        'trusted_base': COMMON_TRUSTED + list(getattr(mod, 'TRUSTED', [])),
        'explanation': getattr(mod, 'EXPLANATION', ''),
        'bounded_checks': {'obligations': b_total, 'discharged': b_ok,
                           'note': 'bounded stand-ins; never counted in obligations/discharged above'},
        'functions_under_contract': funcs,
        'extraction_drops': getattr(mod, 'DROPS', ''),
        'per_group': per,
        'samples': samples,
        'solver_time_s': round(solver_time, 1),
        'groups': len(groups),
        'both_byte_orders': any(g.big_endian for g in groups),
        'not_decided': getattr(mod, 'NOT_DECIDED', []),
    }
    ev = {
        'property_id': ctx.pid,
        'tier': ctx.tier,
        'seed': ctx.seed,
        'level': level,
        'coverage': cov,
        'assumptions': COMMON_ASSUMPTIONS + list(getattr(mod, 'ASSUMPTIONS', [])) +
        ['assume in harness/stub: ' + a for a in scan_assumes(groups)],
        'wall_s': round(wall, 1),
        'violations': nviol,
    }
    d = os.path.join(VERIF, 'evidence')
    os.makedirs(d, exist_ok=True)
    with open(os.path.join(d, ctx.pid + '.json'), 'w') as f:
        json.dump(ev, f, indent=1)
