/* C14: basename / dirname and the recomposition lemma. */
#include "contracts/C14_path.h"
int verif_exc; size_t g_vk, g_ls, g_pk, g_plen;
#ifdef VERIF_SMALL
#define SMALL __CPROVER_assume(in_plen <= 64)
#else
#define SMALL
#endif
#include "x_path.c"

void h_basename(void) { size_t in_vk, in_ls, in_pk, in_plen; SMALL; g_vk = in_vk; g_ls = in_ls; g_pk = in_pk; g_plen = in_plen; verif_exc = 0; vstr* r; const vstr* p; phosg_basename(r, p); VERIF_REACH(); }
void h_dirname(void) { size_t in_vk, in_ls, in_pk, in_plen; SMALL; g_vk = in_vk; g_ls = in_ls; g_pk = in_pk; g_plen = in_plen; verif_exc = 0; vstr* r; const vstr* p; phosg_dirname(r, p); VERIF_REACH(); }

/* dirname(p) + "/" + basename(p) == p for every path that contains a '/': lengths add up and byte g_vk of the
 * concatenation is byte g_vk of p (g_vk arbitrary) */
#include <stdlib.h>
void l_recompose(void)
{
  size_t in_vk, in_ls, in_pk, in_len; g_ls = in_ls; g_pk = in_pk; g_plen = in_len; verif_exc = 0;
  vstr p, d, b;
  __CPROVER_assume(in_len <= 0x100000);
  p.size = in_len; p.cap = in_len; p.data = malloc(in_len); __CPROVER_assume(p.data != 0);
  d.size = 0; d.cap = in_len; d.data = malloc(in_len); __CPROVER_assume(d.data != 0);
  b.size = 0; b.cap = in_len; b.data = malloc(in_len); __CPROVER_assume(b.data != 0);
  /* the path contains a slash; g_ls names the last one */
  __CPROVER_assume(g_ls < in_len && p.data[g_ls] == '/');
  __CPROVER_assume((g_pk < in_len && g_pk > g_ls) ==> p.data[g_pk] != '/');
  g_vk = in_vk;                      /* position in the concatenation */
  phosg_dirname(&d, &p);
  g_vk = in_vk - d.size - 1;         /* the same position, counted inside basename (the contracts speak about result indices) */
  phosg_basename(&b, &p);
  g_vk = in_vk;
  __CPROVER_assert(verif_exc == 0, "no exception");
  __CPROVER_assert(d.size + 1 + b.size == p.size, "length of dirname + '/' + basename");
  if (g_vk < p.size) {
    char c = g_vk < d.size ? d.data[g_vk] : (g_vk == d.size ? '/' : b.data[g_vk - d.size - 1]);
    __CPROVER_assert(c == p.data[g_vk], "byte g_vk of dirname + '/' + basename");
  }
  VERIF_REACH();
}
