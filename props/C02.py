"""C02 -- bounds-checked readers/writers never touch memory outside their buffer (DESIGN.md section 4, C02)."""
from vf.extract import Source
from vf.pipeline import Group, Replay
from props import rw_common as rw
from props import C03 as c03

ID = 'C02'
LEVEL = 'proof'
PROP_DEFINE = 'PROP_C02'


def plan(ctx):
    return rw.plan(ctx, 'C02')
