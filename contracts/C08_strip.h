/* C08 side-car contracts: strip_* templates (src/Strings.hh, StrT = std::string), starts_with / ends_with (src/Strings.cc).
 * Plain definitions, one symbolic byte:  N = old size, g_sval = old s[g_sk] (ghost value idiom), g_shift = number of leading
 * bytes dropped (recorded by the substr stub; 0 otherwise).
 *   result == old[g_shift, g_shift + size);  every dropped byte is in the stripped class;  the first / last remaining byte is not. */
#ifndef C08_STRIP_H
#define C08_STRIP_H
#include "contracts/C08_split.h"

#define MUT_REQ(s) SRC_REQ(s) __CPROVER_requires(verif_exc == 0 && (g_sk < (s)->size ==> g_sval == (s)->data[g_sk]))
#define STRIP_ENSURES(CLASS, FIRST, LAST) \
__CPROVER_ensures(verif_exc == 0) \
__CPROVER_ensures(g_shift <= __CPROVER_old(s->size) && s->size <= __CPROVER_old(s->size) - g_shift) \
__CPROVER_ensures((FIRST) ==> (s->size > 0 ==> !CLASS(s->data[0]))) \
__CPROVER_ensures((LAST) ==> (s->size > 0 ==> !CLASS(s->data[s->size - 1]))) \
__CPROVER_ensures(!(FIRST) ==> g_shift == 0) \
__CPROVER_ensures((!(LAST) && s->size > 0) ==> g_shift + s->size == __CPROVER_old(s->size)) \
__CPROVER_ensures((g_sk < __CPROVER_old(s->size) && (g_sk < g_shift || g_sk - g_shift >= s->size)) ==> CLASS(g_sval)) \
__CPROVER_ensures((g_sk < __CPROVER_old(s->size) && g_sk >= g_shift && g_sk - g_shift < s->size) ==> s->data[g_sk - g_shift] == g_sval)

#define C8_ISNUL(c) ((c) == 0)
void strip_trailing_zeroes(vstr* s) MUT_REQ(s) STRIP_ENSURES(C8_ISNUL, 0, 1) __CPROVER_assigns(s->size, s->data, s->cap, verif_exc, g_shift, g_inst);
void strip_trailing_whitespace(vstr* s) MUT_REQ(s) STRIP_ENSURES(C8_WS, 0, 1) __CPROVER_assigns(s->size, s->data, s->cap, verif_exc, g_shift, g_inst);
void strip_leading_whitespace(vstr* s) MUT_REQ(s) STRIP_ENSURES(C8_WS, 1, 0) __CPROVER_assigns(s->size, s->data, s->cap, verif_exc, g_shift, g_inst);
void strip_whitespace(vstr* s) MUT_REQ(s) STRIP_ENSURES(C8_WS, 1, 1) __CPROVER_assigns(s->size, s->data, s->cap, verif_exc, g_shift, g_inst);

/* starts_with / ends_with: true iff the affix is not longer than s and equals the corresponding bytes of s; a false answer is
 * justified by the length or by a differing position (witness g_wit chosen by the compare stub) */
bool starts_with(const vstr* s, const vstr* start)
SRC_REQ(s) SRC_REQ(start)
__CPROVER_ensures(__CPROVER_return_value ==> (start->size <= s->size && (g_sk < start->size ==> s->data[g_sk] == start->data[g_sk])))
__CPROVER_ensures(!__CPROVER_return_value ==> (start->size > s->size || (g_wit < start->size && s->data[g_wit] != start->data[g_wit])))
__CPROVER_assigns(g_wit);

bool ends_with(const vstr* s, const vstr* end)
SRC_REQ(s) SRC_REQ(end)
__CPROVER_ensures(__CPROVER_return_value ==> (end->size <= s->size && (g_sk < end->size ==> s->data[s->size - end->size + g_sk] == end->data[g_sk])))
__CPROVER_ensures(!__CPROVER_return_value ==> (end->size > s->size || (g_wit < end->size && s->data[s->size - end->size + g_wit] != end->data[g_wit])))
__CPROVER_assigns(g_wit);
#endif
