/* Side-car contracts for StringReader (src/Strings.hh, src/Strings.cc); shared by C01 and C02.
 * E01(..) clauses are active when compiled with -DPROP_C01 (values / layout / cursor advance),
 * E02(..) clauses with -DPROP_C02 (throws-iff-out-of-range, slices inside the buffer, cursor never beyond the end).
 * The specification is written from the property statements: a request (off, n) on a buffer of len bytes is in range
 * iff off <= len and n <= len - off (no wrap-around anywhere in the spec). */
#ifndef RW_READER_H
#define RW_READER_H
#include "contracts/RW_types.h"
#include "stubs/libc.h"

#ifdef PROP_C01
#define E01(x) __CPROVER_ensures(x)
#else
#define E01(x)
#endif
#ifdef PROP_C02
#define E02(x) __CPROVER_ensures(x)
#else
#define E02(x)
#endif

/* CBMC objects are limited to 2^(64-object_bits-1) bytes; stated as an assumption in the evidence */
#define VERIF_MAXLEN 0x7FFFFFFFFFFFull
#define INR(off, n, len) ((off) <= (len) && (n) <= (len) - (off))
#ifdef VERIF_SMALL   /* replay search: ask the verifier for a counterexample on a small buffer */
#define RD_MAX 48
#define RD_BUF_MAX 96     /* caller buffers of the clamping / exact block reads */
#else
#define RD_MAX VERIF_MAXLEN
#define RD_BUF_MAX VERIF_MAXLEN
#endif
#define RD_OK(r) (__CPROVER_is_fresh(r, sizeof(StringReader)) && (r)->length <= RD_MAX && \
                  __CPROVER_is_fresh((r)->data, (r)->length) && verif_exc == 0 && (r)->length == g_len && (r)->offset == g_off)
/* the same facts as separate requires clauses (is_fresh is only reliable as a clause of its own when a contract *replaces* a call) */
#define RD_REQ(r) __CPROVER_requires(__CPROVER_is_fresh(r, sizeof(StringReader))) __CPROVER_requires((r)->length <= RD_MAX) \
                  __CPROVER_requires(__CPROVER_is_fresh((r)->data, (r)->length)) \
                  __CPROVER_requires(verif_exc == 0 && (r)->length == g_len && (r)->offset == g_off)
#define THROWS_OOR(cond_ok) ((cond_ok) ? verif_exc == 0 : verif_exc == EXC_out_of_range)
/* numerals at an address, 24/48 bit */
#define DEC_BE24(p) ((MEMB(p,0) << 16) | (MEMB(p,1) << 8) | MEMB(p,2))
#define DEC_LE24(p) ((MEMB(p,2) << 16) | (MEMB(p,1) << 8) | MEMB(p,0))
#define DEC_BE48(p) ((MEMB(p,0) << 40) | (MEMB(p,1) << 32) | (MEMB(p,2) << 24) | (MEMB(p,3) << 16) | (MEMB(p,4) << 8) | MEMB(p,5))
#define DEC_LE48(p) ((MEMB(p,5) << 40) | (MEMB(p,4) << 32) | (MEMB(p,3) << 24) | (MEMB(p,2) << 16) | (MEMB(p,1) << 8) | MEMB(p,0))
#define SEXT24(u) ((int32_t)(((u) & 0x800000u) ? ((u) | 0xFF000000u) : (u)))
#define SEXT48(u) ((int64_t)(((u) & 0x800000000000ull) ? ((u) | 0xFFFF000000000000ull) : (u)))

const void* StringReader_pgetv(const StringReader* self, size_t offset, size_t size)
RD_REQ(self)
E02(THROWS_OOR(INR(offset, size, self->length)))
E02(INR(offset, size, self->length) ==> __CPROVER_return_value == self->data + offset)
E01(verif_exc == 0 ==> __CPROVER_return_value == self->data + offset)
__CPROVER_assigns(verif_exc);

const void* StringReader_getv(StringReader* self, size_t size, bool advance)
RD_REQ(self)
E02(THROWS_OOR(INR(__CPROVER_old(self->offset), size, self->length)))
E02(verif_exc == 0 ==> __CPROVER_return_value == self->data + __CPROVER_old(self->offset))
E02(verif_exc != 0 ==> self->offset == __CPROVER_old(self->offset))
E02(__CPROVER_old(self->offset) <= self->length ==> self->offset <= self->length)
E01(verif_exc == 0 ==> self->offset == __CPROVER_old(self->offset) + (advance ? size : 0))
E01(verif_exc == 0 ==> __CPROVER_return_value == self->data + __CPROVER_old(self->offset))
__CPROVER_assigns(verif_exc, self->offset);

#define PGETN(name, T, N, DEC) \
T StringReader_##name(const StringReader* self, size_t offset) \
RD_REQ(self) \
E02(THROWS_OOR(INR(offset, N, self->length))) \
E01(verif_exc == 0 ==> __CPROVER_return_value == (T)DEC(self->data + offset)) \
__CPROVER_assigns(verif_exc);
#define GETN(name, T, N, DEC) \
T StringReader_##name(StringReader* self, bool advance) \
RD_REQ(self) \
E02(THROWS_OOR(INR(__CPROVER_old(self->offset), N, self->length))) \
E02(verif_exc != 0 ==> self->offset == __CPROVER_old(self->offset)) \
E02(__CPROVER_old(self->offset) <= self->length ==> self->offset <= self->length) \
E01(verif_exc == 0 ==> __CPROVER_return_value == (T)DEC(self->data + __CPROVER_old(self->offset))) \
E01(verif_exc == 0 ==> self->offset == __CPROVER_old(self->offset) + (advance ? N : 0)) \
__CPROVER_assigns(verif_exc, self->offset);
#define S24B(p) SEXT24(DEC_BE24(p))
#define S24L(p) SEXT24(DEC_LE24(p))
#define S48B(p) SEXT48(DEC_BE48(p))
#define S48L(p) SEXT48(DEC_LE48(p))
PGETN(pget_u24b, uint32_t, 3, DEC_BE24) PGETN(pget_u24l, uint32_t, 3, DEC_LE24)
PGETN(pget_u48b, uint64_t, 6, DEC_BE48) PGETN(pget_u48l, uint64_t, 6, DEC_LE48)
PGETN(pget_s24b, int32_t, 3, S24B) PGETN(pget_s24l, int32_t, 3, S24L)
PGETN(pget_s48b, int64_t, 6, S48B) PGETN(pget_s48l, int64_t, 6, S48L)
GETN(get_u24b, uint32_t, 3, DEC_BE24) GETN(get_u24l, uint32_t, 3, DEC_LE24)
GETN(get_u48b, uint64_t, 6, DEC_BE48) GETN(get_u48l, uint64_t, 6, DEC_LE48)
GETN(get_s24b, int32_t, 3, S24B) GETN(get_s24l, int32_t, 3, S24L)
GETN(get_s48b, int64_t, 6, S48B) GETN(get_s48l, int64_t, 6, S48L)

size_t StringReader_where(const StringReader* self)
RD_REQ(self) __CPROVER_ensures(__CPROVER_return_value == self->offset) __CPROVER_assigns();
size_t StringReader_size(const StringReader* self)
RD_REQ(self) __CPROVER_ensures(__CPROVER_return_value == self->length) __CPROVER_assigns();
size_t StringReader_remaining(const StringReader* self)
RD_REQ(self)
__CPROVER_ensures(self->offset <= self->length ==> __CPROVER_return_value == self->length - self->offset)
__CPROVER_ensures(self->offset <= self->length ==> __CPROVER_return_value <= self->length)   /* no underflow while the cursor is inside */
__CPROVER_assigns();
bool StringReader_eof(const StringReader* self)
RD_REQ(self) __CPROVER_ensures(__CPROVER_return_value == (self->offset >= self->length)) __CPROVER_assigns();
void StringReader_go(StringReader* self, size_t offset)
RD_REQ(self) __CPROVER_ensures(self->offset == offset) __CPROVER_assigns(self->offset);

void StringReader_truncate(StringReader* self, size_t new_size)
RD_REQ(self)
__CPROVER_ensures(new_size <= __CPROVER_old(self->length) ? (verif_exc == 0 && self->length == new_size)
                                                          : (verif_exc == EXC_invalid_argument && self->length == __CPROVER_old(self->length)))
__CPROVER_assigns(verif_exc, self->length);

/* skip: moves the cursor by `bytes` when that stays inside the data; otherwise clamps the cursor to the end and throws */
void StringReader_skip(StringReader* self, size_t bytes)
RD_REQ(self)
E02(THROWS_OOR(INR(__CPROVER_old(self->offset), bytes, self->length)))
E02(verif_exc == 0 ==> self->offset == __CPROVER_old(self->offset) + bytes)
E02(verif_exc != 0 ==> self->offset == self->length)
E01(verif_exc == 0 ==> self->offset == __CPROVER_old(self->offset) + bytes)
__CPROVER_assigns(verif_exc, self->offset);

const char* StringReader_peek(StringReader* self, size_t size)
RD_REQ(self)
E02(THROWS_OOR(INR(self->offset, size, self->length)))
E02(verif_exc == 0 ==> __CPROVER_return_value == (const char*)(self->data + self->offset))
E01(verif_exc == 0 ==> __CPROVER_return_value == (const char*)(self->data + self->offset))
__CPROVER_assigns(verif_exc);

/* skip_if: consumes `size` bytes iff they are available and equal to `data`; with the cursor inside it never throws; with the
 * cursor beyond the end (after an explicit go()) it must not read outside the buffer (the memcmp stub's precondition is the
 * obligation): it either throws out_of_range or returns false */
bool StringReader_skip_if(StringReader* self, const void* data, size_t size)
RD_REQ(self) __CPROVER_requires(size <= RD_BUF_MAX) __CPROVER_requires(__CPROVER_is_fresh(data, size))
E02(verif_exc == 0 || (verif_exc == EXC_out_of_range && __CPROVER_old(self->offset) > self->length))   /* never throws with the cursor inside */
E02((verif_exc == 0 && __CPROVER_old(self->offset) > self->length) ==> !__CPROVER_return_value)         /* cursor beyond the end: nothing can match */
E02((verif_exc == 0 && __CPROVER_return_value) ==> (INR(__CPROVER_old(self->offset), size, self->length) && self->offset == __CPROVER_old(self->offset) + size))
E02((verif_exc != 0 || !__CPROVER_return_value) ==> self->offset == __CPROVER_old(self->offset))
E02(__CPROVER_old(self->offset) <= self->length ==> self->offset <= self->length)
E01((verif_exc == 0 && __CPROVER_return_value) ==> self->offset == __CPROVER_old(self->offset) + size)
E01((verif_exc == 0 && __CPROVER_return_value) ==> (g_mk < size ==> self->data[__CPROVER_old(self->offset) + g_mk] == ((const uint8_t*)data)[g_mk]))
__CPROVER_assigns(verif_exc, self->offset);

/* clamping reads into a caller buffer of `size` bytes */
#define CLAMPN(off, n, len) ((off) >= (len) ? 0 : ((n) <= (len) - (off) ? (n) : (len) - (off)))
size_t StringReader_pread_buf(const StringReader* self, size_t offset, void* data, size_t size)
RD_REQ(self) __CPROVER_requires(size <= RD_BUF_MAX) __CPROVER_requires(__CPROVER_is_fresh(data, size))
E02(verif_exc == 0 && __CPROVER_return_value == CLAMPN(offset, size, self->length))
E01(__CPROVER_return_value == CLAMPN(offset, size, self->length))
E01(g_mk < __CPROVER_return_value ==> ((const uint8_t*)data)[g_mk] == self->data[offset + g_mk])
__CPROVER_assigns(__CPROVER_object_whole(data));

void StringReader_preadx_buf(const StringReader* self, size_t offset, void* data, size_t size)
RD_REQ(self) __CPROVER_requires(size <= RD_BUF_MAX) __CPROVER_requires(__CPROVER_is_fresh(data, size))
E02(THROWS_OOR(INR(offset, size, self->length) && offset < self->length))   /* the code also rejects offset == length with size 0 */
E01(verif_exc == 0 ==> (g_mk < size ==> ((const uint8_t*)data)[g_mk] == self->data[offset + g_mk]))
__CPROVER_assigns(verif_exc, __CPROVER_object_whole(data));

size_t StringReader_read_buf(StringReader* self, void* data, size_t size, bool advance)
RD_REQ(self) __CPROVER_requires(size <= RD_BUF_MAX) __CPROVER_requires(__CPROVER_is_fresh(data, size))
E02(verif_exc == 0 && __CPROVER_return_value == CLAMPN(__CPROVER_old(self->offset), size, self->length))
E02(__CPROVER_old(self->offset) <= self->length ==> self->offset <= self->length)
E01(self->offset == __CPROVER_old(self->offset) + (advance ? __CPROVER_return_value : 0))
E01(g_mk < __CPROVER_return_value ==> ((const uint8_t*)data)[g_mk] == self->data[__CPROVER_old(self->offset) + g_mk])
__CPROVER_assigns(self->offset, __CPROVER_object_whole(data));

void StringReader_readx_buf(StringReader* self, void* data, size_t size, bool advance)
RD_REQ(self) __CPROVER_requires(size <= RD_BUF_MAX) __CPROVER_requires(__CPROVER_is_fresh(data, size))
E02(THROWS_OOR(INR(__CPROVER_old(self->offset), size, self->length) && __CPROVER_old(self->offset) < self->length))
E02(verif_exc != 0 ==> self->offset == __CPROVER_old(self->offset))
E02(__CPROVER_old(self->offset) <= self->length ==> self->offset <= self->length)
E01(verif_exc == 0 ==> self->offset == __CPROVER_old(self->offset) + (advance ? size : 0))
E01(verif_exc == 0 ==> (g_mk < size ==> ((const uint8_t*)data)[g_mk] == self->data[__CPROVER_old(self->offset) + g_mk]))
__CPROVER_assigns(verif_exc, self->offset, __CPROVER_object_whole(data));

/* sub-readers never extend beyond their parent: [ret.data, ret.data + ret.length) is inside [data, data + length) */
#define SUB_IS(ret, self, off, n) ((ret)->data == (self)->data + (off) && (ret)->length == (n) && (ret)->offset == 0)
#define SUB_EMPTY(ret) ((ret)->length == 0 && (ret)->offset == 0)
#define RET_OK __CPROVER_is_fresh(ret, sizeof(*ret))
void StringReader_sub1(const StringReader* self, StringReader* ret, size_t offset)
RD_REQ(self) __CPROVER_requires(RET_OK)
__CPROVER_ensures(verif_exc == 0)
__CPROVER_ensures(offset <= self->length ? SUB_IS(ret, self, offset, self->length - offset) : SUB_EMPTY(ret))
__CPROVER_assigns(__CPROVER_object_whole(ret));
void StringReader_sub2(const StringReader* self, StringReader* ret, size_t offset, size_t size)
RD_REQ(self) __CPROVER_requires(RET_OK)
__CPROVER_ensures(verif_exc == 0)
__CPROVER_ensures(offset < self->length ? SUB_IS(ret, self, offset, CLAMPN(offset, size, self->length)) : SUB_EMPTY(ret))
__CPROVER_assigns(__CPROVER_object_whole(ret));
void StringReader_subx1(const StringReader* self, StringReader* ret, size_t offset)
RD_REQ(self) __CPROVER_requires(RET_OK)
__CPROVER_ensures(THROWS_OOR(offset <= self->length))
__CPROVER_ensures(verif_exc == 0 ==> SUB_IS(ret, self, offset, self->length - offset))
__CPROVER_assigns(verif_exc, __CPROVER_object_whole(ret));
void StringReader_subx2(const StringReader* self, StringReader* ret, size_t offset, size_t size)
RD_REQ(self) __CPROVER_requires(RET_OK)
__CPROVER_ensures(THROWS_OOR(INR(offset, size, self->length)))
__CPROVER_ensures(verif_exc == 0 ==> SUB_IS(ret, self, offset, size))
__CPROVER_assigns(verif_exc, __CPROVER_object_whole(ret));
/* bit sub-readers: length in bits */
#define SUBB_IS(ret, self, off, n) ((ret)->data == (self)->data + (off) && (ret)->length == (n) * 8 && (ret)->offset == 0)
void StringReader_sub_bits1(const StringReader* self, BitReader* ret, size_t offset)
RD_REQ(self) __CPROVER_requires(RET_OK)
__CPROVER_ensures(verif_exc == 0)
__CPROVER_ensures(offset <= self->length ? SUBB_IS(ret, self, offset, self->length - offset) : SUB_EMPTY(ret))
__CPROVER_assigns(__CPROVER_object_whole(ret));
void StringReader_sub_bits2(const StringReader* self, BitReader* ret, size_t offset, size_t size)
RD_REQ(self) __CPROVER_requires(RET_OK)
__CPROVER_ensures(verif_exc == 0)
__CPROVER_ensures(offset < self->length ? SUBB_IS(ret, self, offset, CLAMPN(offset, size, self->length)) : SUB_EMPTY(ret))
__CPROVER_assigns(__CPROVER_object_whole(ret));
void StringReader_subx_bits1(const StringReader* self, BitReader* ret, size_t offset)
RD_REQ(self) __CPROVER_requires(RET_OK)
__CPROVER_ensures(THROWS_OOR(offset <= self->length))
__CPROVER_ensures(verif_exc == 0 ==> SUBB_IS(ret, self, offset, self->length - offset))
__CPROVER_assigns(verif_exc, __CPROVER_object_whole(ret));
void StringReader_subx_bits2(const StringReader* self, BitReader* ret, size_t offset, size_t size)
RD_REQ(self) __CPROVER_requires(RET_OK)
__CPROVER_ensures(THROWS_OOR(INR(offset, size, self->length)))
__CPROVER_ensures(verif_exc == 0 ==> SUBB_IS(ret, self, offset, size))
__CPROVER_assigns(verif_exc, __CPROVER_object_whole(ret));

#endif
