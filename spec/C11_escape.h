/* C11 specification macros for the escapers of src/Strings.cc -- written from the property statement:
 *   "the URL and control-character escapers emit only their permitted characters and are decoded back to the input by
 *    an independent unescaper (the quote escaper emits no raw quote or non-printable byte)".
 * All macros are over octets given as unsigned values (uint8_t), never over dereferences.
 *
 * The reference unescapers are *self-delimiting, left-to-right* decoders: looking at the first one or two octets of a
 * code they know its length (UNESC_*_LEN), whether it is well formed (UNESC_*_WF) and the octet it stands for
 * (UNESC_*_VAL).  An escaper whose output is the concatenation, in input order, of one code per input octet, each code
 * satisfying  LEN == emitted length, WF, VAL == the input octet,  is therefore inverted by running the reference decoder
 * from the start of the output (induction over the input position; each step is one of the obligations below). */
#ifndef SPEC_C11_ESCAPE_H
#define SPEC_C11_ESCAPE_H

#define ESC_PRINTABLE(c) ((c) >= 0x20 && (c) <= 0x7E)                    /* printable ASCII, space included */
#define ESC_ALNUM(c)     (((c) >= '0' && (c) <= '9') || ((c) >= 'A' && (c) <= 'Z') || ((c) >= 'a' && (c) <= 'z'))
#define ESC_HEXD(c)      (((c) >= '0' && (c) <= '9') || ((c) >= 'A' && (c) <= 'F') || ((c) >= 'a' && (c) <= 'f'))
#define ESC_HEXV(c)      ((c) <= '9' ? (c) - '0' : (c) <= 'F' ? (c) - 'A' + 10 : (c) - 'a' + 10)

/* ---- reference unescaper for C-style control escapes:  \" \' \\ \t \r \n \f \b \a \v  \xHH ; anything else literal ---- */
#define UNESC_C_SIMPLE(c) ((c) == '"' || (c) == '\'' || (c) == '\\' || (c) == 't' || (c) == 'r' || (c) == 'n' || (c) == 'f' || \
                           (c) == 'b' || (c) == 'a' || (c) == 'v')
#define UNESC_C_SIMPLE_VAL(c) ((c) == 't' ? '\t' : (c) == 'r' ? '\r' : (c) == 'n' ? '\n' : (c) == 'f' ? '\f' : (c) == 'b' ? '\b' : \
                               (c) == 'a' ? '\a' : (c) == 'v' ? '\v' : (c))
#define UNESC_C_LEN(o0, o1)          ((o0) != '\\' ? 1 : (o1) == 'x' ? 4 : 2)
#define UNESC_C_WF(o0, o1, o2, o3)   ((o0) != '\\' || ((o1) == 'x' ? (ESC_HEXD(o2) && ESC_HEXD(o3)) : UNESC_C_SIMPLE(o1)))
#define UNESC_C_VAL(o0, o1, o2, o3)  ((o0) != '\\' ? (o0) : (o1) == 'x' ? (16 * ESC_HEXV(o2) + ESC_HEXV(o3)) : UNESC_C_SIMPLE_VAL(o1))
/* permitted output octets of escape_controls: printable ASCII; when non-ASCII octets are not to be escaped, also >= 0x80 */
#define PERM_C(c, ascii_only) (ESC_PRINTABLE(c) || (!(ascii_only) && (c) >= 0x80))
/* the code (o0.. of length n) emitted for input octet ch */
#define ESC_C_OK(o0, o1, o2, o3, n, ch, ascii_only) \
  ((n) == UNESC_C_LEN(o0, o1) && UNESC_C_WF(o0, o1, o2, o3) && UNESC_C_VAL(o0, o1, o2, o3) == (ch) && \
   PERM_C(o0, ascii_only) && ((n) < 2 || PERM_C(o1, ascii_only)) && ((n) < 3 || PERM_C(o2, ascii_only)) && ((n) < 4 || PERM_C(o3, ascii_only)))

/* ---- reference URL unescaper (RFC 3986 percent-encoding): %HH ; anything else literal ---- */
#define UNESC_U_LEN(o0)          ((o0) == '%' ? 3 : 1)
#define UNESC_U_WF(o0, o1, o2)   ((o0) != '%' || (ESC_HEXD(o1) && ESC_HEXD(o2)))
#define UNESC_U_VAL(o0, o1, o2)  ((o0) != '%' ? (o0) : (16 * ESC_HEXV(o1) + ESC_HEXV(o2)))
/* permitted output octets of escape_url: unreserved characters, '=', '&', '%' (introducing an escape) and, unless
 * slashes are to be escaped, '/' */
#define PERM_U(c, no_slash) (ESC_ALNUM(c) || (c) == '-' || (c) == '_' || (c) == '.' || (c) == '~' || (c) == '=' || (c) == '&' || (c) == '%' || \
                             (!(no_slash) && (c) == '/'))
#define ESC_U_OK(o0, o1, o2, o3, n, ch, no_slash) \
  ((n) == UNESC_U_LEN(o0) && UNESC_U_WF(o0, o1, o2) && UNESC_U_VAL(o0, o1, o2) == (ch) && \
   PERM_U(o0, no_slash) && ((n) < 2 || PERM_U(o1, no_slash)) && ((n) < 3 || PERM_U(o2, no_slash)))

/* ---- escape_quotes: every output octet is printable ASCII, and every '"' is immediately preceded by a backslash ---- */
#define ESC_Q_OK(o0, o1, o2, o3, n, ch, unused) \
  ((n) >= 1 && (n) <= 4 && ESC_PRINTABLE(o0) && (o0) != '"' && \
   ((n) < 2 || (ESC_PRINTABLE(o1) && ((o1) != '"' || (o0) == '\\'))) && \
   ((n) < 3 || (ESC_PRINTABLE(o2) && ((o2) != '"' || (o1) == '\\'))) && \
   ((n) < 4 || (ESC_PRINTABLE(o3) && ((o3) != '"' || (o2) == '\\'))))

#endif
