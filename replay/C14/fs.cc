// Native replay for C14 (src/Filesystem.cc): driver <mode> [fn] g_src_len=.. g_pos=.. g_chunk=.. in_*=..
// exit 1 = the contract's postcondition is violated on the real code; 0 = holds on this input; 2 = usage / not replayable.
//   read_all_fd    real pipe, writer thread: first write, pause, rest, close       -> read_all(fd) must return every byte
//   read_all_file  FILE* over fopencookie: short deliveries; optional read error   -> read_all(FILE*) returns all bytes or throws
//   fgets_line     tmpfile holding one line of g_src_len bytes (+ a following line) -> fgets(FILE*) returns exactly that line
//   exact <fn>     readx/freadx/read/fread/... on a pipe that delivers g_chunk of the in_size requested bytes
//   poll_add_twice / poll_ops   Poll as a map of descriptors
//   dirname_basename            dirname(p) + "/" + basename(p) == p
//   scoped_fd <member>          every descriptor is closed exactly once
#define _GNU_SOURCE 1
#include "replay/common/args.hh"
#include "Filesystem.hh"
#include <fcntl.h>
#include <poll.h>
#include <sys/stat.h>
#include <unistd.h>
#include <signal.h>
#include <stdexcept>
#include <thread>
#include <chrono>
using namespace phosg;
using namespace std;

static string pattern(size_t n, bool text) {
  string s(n, '\0');
  for (size_t i = 0; i < n; i++) {
    uint8_t c = (uint8_t)(i * 131 + (i >> 8) * 7 + 17);
    if (text) c = 'a' + (c % 26);
    s[i] = (char)c;
  }
  return s;
}
static size_t first_diff(const string& a, const string& b) {
  size_t n = a.size() < b.size() ? a.size() : b.size();
  for (size_t i = 0; i < n; i++) if (a[i] != b[i]) return i;
  return n;
}

// ---- fopencookie source: delivers `data` in pieces of at most `chunk` bytes, optionally fails after `fail_at` bytes
struct Cookie { const string* data; size_t pos, chunk; bool fail; size_t fail_at; };
static ssize_t cookie_read(void* c, char* buf, size_t n) {
  Cookie* k = (Cookie*)c;
  if (k->fail && k->pos >= k->fail_at) { errno = EIO; return -1; }
  size_t lim = k->data->size();
  if (k->fail && k->fail_at < lim) lim = k->fail_at;
  size_t m = lim - k->pos;
  if (m > n) m = n;
  if (m > k->chunk) m = k->chunk;
  memcpy(buf, k->data->data() + k->pos, m);
  k->pos += m;
  return (ssize_t)m;
}

static int count_open_fds() {
  int n = 0;
  for (int fd = 0; fd < 1024; fd++) if (fcntl(fd, F_GETFD) != -1) n++;
  return n;
}

int main(int argc, char** argv) {
  Args A(argc, argv);
  signal(SIGPIPE, SIG_IGN);   // the reader may close the pipe before the writer is done
  const string& m = A.mode;
  size_t len = A.u("g_src_len"), pos = A.u("g_pos");
  int64_t chunk = (int64_t)A.u("g_chunk");

  if (m == "read_all_fd") {
    if (len > (1u << 24)) { printf("source too large to replay natively\n"); return 2; }
    size_t first = (pos > 0 && pos < len) ? pos : ((chunk > 0 && (size_t)chunk < len) ? (size_t)chunk : len / 2);
    if (first % 16384 == 0 && first + 1 < len) first++;
    string data = pattern(len, false);
    int fds[2];
    if (::pipe(fds)) return 2;
    thread w([&] {
      size_t off = 0;
      auto put = [&](size_t n) { while (n) { ssize_t k = ::write(fds[1], data.data() + off, n); if (k <= 0) return; off += k; n -= k; } };
      put(first);
      this_thread::sleep_for(chrono::milliseconds(150));   // the reader drains the pipe before the second write arrives
      put(len - first);
      ::close(fds[1]);
    });
    string got; bool threw = false;
    try { got = read_all(fds[0]); } catch (const exception& e) { threw = true; printf("threw: %s\n", e.what()); }
    ::close(fds[0]);
    w.join();
    printf("read_all(fd): pipe delivers %zu bytes as %zu + (pause) + %zu; returned %zu bytes\n", len, first, len - first, got.size());
    RCHECK(threw || got.size() == len, "read_all returned %zu of the %zu bytes the writer delivered before closing the pipe (silent truncation at the first short read)", got.size(), len);
    RCHECK(threw || got == data, "content differs at byte %zu", first_diff(got, data));
    return 0;
  }
  if (m == "read_all_file") {
    if (len > (1u << 24)) { printf("source too large to replay natively\n"); return 2; }
    bool err = A.u("g_err_seen") != 0;
    string data = pattern(len, false);
    Cookie ck{&data, 0, (chunk > 0) ? (size_t)chunk : 1000, err, (pos <= len) ? pos : len};
    cookie_io_functions_t io = {cookie_read, nullptr, nullptr, nullptr};
    FILE* f = fopencookie(&ck, "rb", io);
    if (!f) return 2;
    string got; bool threw = false;
    try { got = read_all(f); } catch (const exception& e) { threw = true; printf("threw: %s\n", e.what()); }
    bool ferr = ferror(f);
    fclose(f);
    printf("read_all(FILE*): stream of %zu bytes, %s; returned %zu bytes, ferror=%d\n", len, err ? "read error injected" : "no error", got.size(), ferr);
    if (err) RCHECK(threw, "the stream reported a read error after %zu of %zu bytes but read_all returned %zu bytes without throwing", ck.fail_at, len, got.size());
    else { RCHECK(!threw && got.size() == len, "returned %zu of %zu bytes", got.size(), len); RCHECK(got == data, "content differs at byte %zu", first_diff(got, data)); }
    return 0;
  }
  if (m == "fgets_line") {
    if (len > (1u << 22)) { printf("line too long to replay natively\n"); return 2; }
    bool nl = A.u("g_has_nl") != 0;
    if (nl && len == 0) return 2;
    string line = pattern(len, true);
    if (nl) line[len - 1] = '\n';
    FILE* f = tmpfile();
    if (!f) return 2;
    fwrite(line.data(), 1, line.size(), f);
    if (nl) fputs("NEXT LINE\n", f);
    fflush(f);
    rewind(f);
    string got; bool threw = false;
    try { got = phosg::fgets(f); } catch (const exception& e) { threw = true; printf("threw: %s\n", e.what()); }
    long at = ftell(f);
    fclose(f);
    printf("fgets(FILE*): line of %zu bytes (%s); returned %zu bytes, stream position %ld\n", len, nl ? "newline-terminated" : "ends at end-of-file", got.size(), at);
    RCHECK(!threw, "threw on a readable stream");
    RCHECK(got.size() == len, "returned %zu bytes for a line of %zu bytes (truncated or padded)", got.size(), len);
    RCHECK(got == line, "content differs at byte %zu", first_diff(got, line));
    RCHECK((size_t)at == len, "consumed %ld bytes of the stream, the line has %zu", at, len);
    return 0;
  }
  if (m == "exact") {
    // source: pipe holding `avail` bytes then end-of-file; the function asks for in_size bytes
    string fn = A.extra.empty() ? "" : A.extra[0];
    size_t size = A.u("in_size");
    if (size > (1u << 16) || len > (1u << 16)) { printf("too large to replay natively (pipe capacity)\n"); return 2; }
    size_t avail = (chunk >= 0) ? (size_t)chunk : 0;
    string data = pattern(avail, false);
    bool is_write = fn.find("write") != string::npos;
    if (fn == "fgetcx") {
      uint8_t sval = (uint8_t)A.u("g_sval");
      bool have = pos < len;
      int fds[2];
      if (::pipe(fds)) return 2;
      if (have && ::write(fds[1], &sval, 1) != 1) return 2;
      ::close(fds[1]);
      FILE* f = fdopen(fds[0], "rb");
      int got = -1; bool threw = false;
      try { got = fgetcx(f); } catch (const exception& e) { threw = true; printf("threw: %s\n", e.what()); }
      fclose(f);
      printf("fgetcx: stream %s; %s %d\n", have ? "holds one byte" : "is at end-of-file", threw ? "threw" : "returned", got);
      RCHECK(threw == !have, "fgetcx %s", threw ? "threw although a byte was available" : "returned a byte at end-of-file");
      RCHECK(threw || got == sval, "returned %d, the stream byte is %d", got, sval);
      return 0;
    }
    if (fn == "preadx" || fn == "preadx_str") {
      // a real file of 80 bytes: a range inside it comes back exactly; a range that straddles the end of the file (pread() delivers a
      // short count) must end in an exception, never in a buffer that is silently completed with other bytes
      string content = pattern(80, false);
      char path[] = "/tmp/verif-c14-preadx-XXXXXX";
      int tfd = mkstemp(path);
      if (tfd < 0) return 2;
      ::unlink(path);
      if (::write(tfd, content.data(), content.size()) != (ssize_t)content.size()) return 2;
      for (auto rq : {std::pair<size_t, off_t>{30, 50}, {60, 50}, {1, 79}, {2, 79}, {0, 10}}) {
        string got(rq.first, '\xEE'); bool threw = false;
        try { if (fn == "preadx") preadx(tfd, got.data(), rq.first, rq.second); else got = preadx(tfd, rq.first, rq.second); }
        catch (const exception& e) { threw = true; }
        bool inside = (size_t)rq.second + rq.first <= content.size();
        printf("%s(%zu bytes at offset %lld of an 80-byte file): %s\n", fn.c_str(), rq.first, (long long)rq.second, threw ? "threw" : "returned");
        RCHECK(inside || threw || rq.first == 0, "a range that extends beyond the end of the file was returned without an exception (%zu bytes at %lld)", rq.first, (long long)rq.second);
        if (!threw) RCHECK(got.size() == rq.first && memcmp(got.data(), content.data() + rq.second, std::min(rq.first, content.size() - (size_t)rq.second)) == 0, "the bytes returned are not the bytes of the file range");
        if (inside && rq.first) RCHECK(!threw, "a range inside the file threw");
      }
      ::close(tfd);
      return 0;
    }
    if (is_write || fn.find("pread") != string::npos || fn.find("_file") != string::npos) { printf("mode exact: %s is not replayed natively\n", fn.c_str()); return 2; }
    int fds[2];
    if (::pipe(fds)) return 2;
    if (avail) { if (::write(fds[1], data.data(), avail) != (ssize_t)avail) return 2; }
    ::close(fds[1]);
    FILE* f = (fn[0] == 'f') ? fdopen(fds[0], "rb") : nullptr;
    string got; bool threw = false;
    try {
      if (fn == "readx") { got.resize(size); readx(fds[0], got.data(), size); }
      else if (fn == "readx_str") got = readx(fds[0], size);
      else if (fn == "freadx") { got.resize(size); freadx(f, got.data(), size); }
      else if (fn == "freadx_str") got = freadx(f, size);
      else if (fn == "read_str") got = phosg::read(fds[0], size);
      else if (fn == "fread_str") got = phosg::fread(f, size);
      else return 2;
    } catch (const exception& e) { threw = true; printf("threw: %s\n", e.what()); }
    size_t k = avail < size ? avail : size;
    printf("%s: asked for %zu bytes, source delivers %zu; %s, %zu bytes\n", fn.c_str(), size, avail, threw ? "threw" : "returned", got.size());
    bool x = fn.find('x') != string::npos;
    if (x) { RCHECK(threw == (k != size), "exact-size reader %s on a short source", threw ? "threw although the source had enough bytes" : "returned"); }
    else RCHECK(!threw && got.size() == k, "returned %zu bytes, the source delivered %zu (truncated or padded)", got.size(), k);
    if (!threw) RCHECK(memcmp(got.data(), data.data(), k) == 0, "content differs");
    if (fn == "readx" || fn == "readx_str") {
      // the same request with the bytes arriving in two pieces (pipe with a delayed writer): exactly the bytes of the source, or an exception
      size_t want = size ? size : 11;
      if (want < 2) want = 2;
      string src = pattern(want, false);
      int p2[2];
      if (::pipe(p2)) return 2;
      std::thread writer([&]() {
        size_t first = want / 2;
        if (::write(p2[1], src.data(), first) != (ssize_t)first) return;
        usleep(150000);
        if (::write(p2[1], src.data() + first, want - first) != (ssize_t)(want - first)) return;
        ::close(p2[1]);
      });
      string got2; bool threw2 = false;
      try {
        if (fn == "readx") { got2.resize(want); readx(p2[0], got2.data(), want); } else got2 = readx(p2[0], want);
      } catch (const exception& e) { threw2 = true; printf("chunked delivery: threw: %s\n", e.what()); }
      ::close(p2[0]);
      writer.join();
      printf("%s: %zu bytes delivered in two pieces; %s\n", fn.c_str(), want, threw2 ? "threw" : "returned");
      if (!threw2) RCHECK(got2.size() == want && memcmp(got2.data(), src.data(), want) == 0, "the bytes returned are not the bytes the source delivered (delivery in two pieces)");
    }
    return 0;
  }
  if (m == "file_replace") {
    // save_file / load_file through a real temporary file that ALREADY holds a longer content: the bytes loaded back must be
    // exactly the bytes saved (POSIX: requires O_TRUNC on the save side and a non-modifying open on the load side)
    string fn = A.extra.empty() ? "" : A.extra[0];
    char path[] = "/tmp/verif-c14-XXXXXX";
    int tfd = mkstemp(path);
    if (tfd < 0) return 2;
    string old_content = pattern(300, false);
    if (::write(tfd, old_content.data(), old_content.size()) != (ssize_t)old_content.size()) return 2;
    ::close(tfd);
    size_t size = A.u("in_size");
    if (size > 200) size = 200;
    string data = pattern(size, true);
    string got; bool threw = false;
    try {
      if (fn == "save_file") save_file(path, data.data(), data.size());
      else if (fn == "save_file_str") save_file(path, data);
      else if (fn == "load_file") { data = old_content; }
      got = load_file(path);
    } catch (const exception& e) { threw = true; printf("threw: %s\n", e.what()); }
    string after;
    { FILE* f = fopen(path, "rb"); char buf[1024]; size_t n = f ? fread(buf, 1, sizeof(buf), f) : 0; if (f) fclose(f); after.assign(buf, n); }
    ::unlink(path);
    printf("%s over an existing %zu-byte file: saved %zu bytes, load_file returned %zu bytes, file now holds %zu bytes\n", fn.c_str(), old_content.size(), data.size(), got.size(), after.size());
    RCHECK(!threw, "threw on a writable temporary file");
    RCHECK(got == data, "load_file(save_file(d)) != d: %zu bytes came back for %zu saved (stale tail of the previous content?)", got.size(), data.size());
    RCHECK(after == data, "the file holds %zu bytes after the operation, expected %zu", after.size(), data.size());
    return 0;
  }
  if (m == "list_directory") {
    // a real temporary directory holding names around the "." / ".." boundary; the listing must be exactly these names
    string fn = A.extra.empty() ? "" : A.extra[0];
    char tmpl[] = "/tmp/verif-c14-dir-XXXXXX";
    if (!mkdtemp(tmpl)) return 2;
    string dir = tmpl;
    vector<string> names = {"a", ".hidden", "..data", "...", "x..y", ".a", "..a", "....", "b."};
    for (const auto& n : names) { FILE* f = fopen((dir + "/" + n).c_str(), "wb"); if (!f) return 2; fclose(f); }
    vector<string> got; bool threw = false;
    try {
      if (fn == "list_directory_sorted") got = list_directory_sorted(dir);
      else { auto st = list_directory(dir); got.assign(st.begin(), st.end()); }
    } catch (const exception& e) { threw = true; printf("threw: %s\n", e.what()); }
    for (const auto& n : names) ::unlink((dir + "/" + n).c_str());
    ::rmdir(dir.c_str());
    vector<string> want = names; sort(want.begin(), want.end());
    bool was_sorted = is_sorted(got.begin(), got.end());
    sort(got.begin(), got.end());
    printf("%s over %zu entries: returned %zu names\n", fn.c_str(), names.size(), got.size());
    RCHECK(!threw, "threw on a readable directory");
    for (const auto& n : want) RCHECK(binary_search(got.begin(), got.end(), n), "entry \"%s\" is present in the directory but missing from the listing", n.c_str());
    RCHECK(got.size() == want.size(), "listing has %zu names, the directory has %zu entries besides . and ..", got.size(), want.size());
    if (fn == "list_directory_sorted") RCHECK(was_sorted, "list_directory_sorted result is not sorted");
    return 0;
  }
  if (m == "dirname_basename") {
    // path of g_plen characters whose last '/' is at g_ls (none if g_ls is npos); a second '/' earlier when there is room
    size_t n = A.u("g_plen"), ls = A.u("g_ls");
    if (n > 4096) { printf("path too long to replay natively\n"); return 2; }
    string p;
    for (size_t i = 0; i < n; i++) p.push_back((char)('a' + i % 26));
    if (ls < n) { p[ls] = '/'; if (ls >= 2) p[ls / 2] = '/'; }
    string d = dirname(p), b = basename(p);
    printf("dirname(\"%s\") = \"%s\", basename = \"%s\"\n", p.c_str(), d.c_str(), b.c_str());
    if (ls < n) {
      RCHECK(d == p.substr(0, ls), "dirname is not the part before the last slash");
      RCHECK(b == p.substr(ls + 1), "basename is not the part after the last slash");
      RCHECK(d + "/" + b == p, "dirname + '/' + basename = \"%s\" != \"%s\"", (d + "/" + b).c_str(), p.c_str());
    } else {
      RCHECK(d.empty() && b == p, "path without a slash: dirname must be empty and basename the whole path");
    }
    return 0;
  }
  if (m == "poll_add_twice" || m == "poll_ops") {
    // the vector before the call: g_pn strictly increasing descriptors, g_lb of them below the key, the key itself present iff g_present
    size_t n = A.u("g_pn"), lb = A.u("g_lb");
    bool present = A.u("g_present") != 0;
    string op = A.extra.empty() ? "add" : A.extra[0];
    if (m == "poll_add_twice") { n = 2; lb = 1; present = true; op = "add"; }
    if (n > 4096 || lb > n || (present && lb >= n)) { printf("vector description not replayable\n"); return 2; }
    const int key = 100000;
    Poll p;
    vector<int> keys;
    for (size_t i = 0; i < n; i++) {
      int fd = (i < lb) ? key - (int)(lb - i) : (present ? key + (int)(i - lb) : key + 1 + (int)(i - lb));
      keys.push_back(fd);
    }
    // build in descending order so that every insertion is of a new, smallest key (never a re-add)
    for (size_t i = n; i-- > 0;) p.add(keys[i], POLLIN);
    vector<int> want = keys;                      // the abstract map's key set after the operation
    if (op == "add") { p.add(key, POLLOUT); if (!present) want.push_back(key); }
    else { p.remove(key); vector<int> w2; for (int k : want) if (k != key) w2.push_back(k); want = w2; }
    // observe through the public interface: remove every key of the abstract map once; the Poll must then be empty, and not before
    for (size_t i = 0; i < want.size(); i++) {
      RCHECK(!p.empty(), "Poll::empty() is true while %zu descriptors are still registered", want.size() - i);
      p.remove(want[i]);
    }
    printf("Poll: %zu registered descriptors, %s(%d) (%s before); after removing each of the %zu registered descriptors once: empty() = %d\n",
        n, op.c_str(), key, present ? "present" : "absent", want.size(), (int)p.empty());
    RCHECK(p.empty(), "Poll is not empty after every registered descriptor was removed once (re-adding descriptor %d created a duplicate entry)", key);
    if (op == "add") {
      // "re-adding replaces": observed through poll() on a pipe with one byte pending -- after add(r, POLLIN); add(r, <mask without POLLIN>)
      // the read end must not be reported readable any more
      int fds[2];
      if (::pipe(fds) == 0) {
        char c = 'x';
        if (::write(fds[1], &c, 1) == 1) {
          for (short second : {(short)0, (short)POLLOUT}) {
            Poll q;
            q.add(fds[0], POLLIN);
            q.add(fds[0], second);
            auto res = q.poll(0);
            short got = res.count(fds[0]) ? res.at(fds[0]) : 0;
            printf("add(r, POLLIN); add(r, 0x%X); poll(0) reports 0x%X for r\n", (unsigned)second, (unsigned)(unsigned short)got);
            RCHECK(!(got & POLLIN), "re-adding a descriptor with mask 0x%X kept POLLIN from the earlier registration (poll reports 0x%X)", (unsigned)second, (unsigned)(unsigned short)got);
          }
        }
        ::close(fds[0]); ::close(fds[1]);
      }
    }
    return 0;
  }
  if (m == "scoped_fd") {
    string member = A.extra.empty() ? "" : A.extra[0];
    int before = count_open_fds();
    int a = ::open("/dev/null", O_RDONLY), b = ::open("/dev/null", O_RDONLY);
    {
      scoped_fd x(a);
      if (member == "move_ctor") { scoped_fd y(std::move(x)); RCHECK((int)x == -1 && (int)y == a, "move constructor: source %d target %d", (int)x, (int)y); }
      else if (member == "move_assign") { scoped_fd y(b); y = std::move(x); b = -1; RCHECK((int)x == -1 && (int)y == a, "move assignment: source %d target %d", (int)x, (int)y); }
      else if (member == "assign_int") { x = b; b = -1; RCHECK(fcntl(a, F_GETFD) == -1, "old descriptor still open after operator=(int)"); }
      else if (member == "close") { x.close(); RCHECK(fcntl(a, F_GETFD) == -1 && (int)x == -1, "close()"); x.close(); }
    }
    if (b >= 0) ::close(b);
    int after = count_open_fds();
    printf("scoped_fd %s: open descriptors before %d, after %d\n", member.c_str(), before, after);
    RCHECK(after == before, "descriptor leak or double close");
    return 0;
  }
  fprintf(stderr, "unknown mode %s\n", m.c_str());
  return 2;
}
