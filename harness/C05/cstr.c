/* C05: h_cstr */
#include "harness/C05/common.h"
#include "x_reader_core.c"   /* StringReader_ctor (the constructor's member-initialiser list) */
#include "x_json_entry.c"

void h_cstr(void) { const char* s; JVal* ret; size_t in_size; bool in_de; IN_COMMON; g_j.de = in_de; JSON_parse_cstr(s, in_size, in_de, ret); VERIF_REACH(); }
