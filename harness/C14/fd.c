/* C14: scoped_fd members (loop-free) and "closed exactly once" lemmas over their contracts. */
#include "contracts/C14_fd.h"
int verif_exc; C14_GHOSTS
#include "x_scoped_fd.c"

#define IN_FD int in_gfd; unsigned in_closes, in_closes_other; g_fd = in_gfd; g_closes = in_closes; g_closes_other = in_closes_other; verif_exc = 0
void h_ctor(void) { IN_FD; scoped_fd* s; scoped_fd_ctor(s); VERIF_REACH(); }
void h_ctor_int(void) { IN_FD; scoped_fd* s; int in_fd; scoped_fd_ctor_int(s, in_fd); VERIF_REACH(); }
void h_move_ctor(void) { IN_FD; scoped_fd* s; scoped_fd* o; scoped_fd_move_ctor(s, o); VERIF_REACH(); }
void h_close(void) { IN_FD; scoped_fd* s; scoped_fd_close(s); VERIF_REACH(); }
void h_dtor(void) { IN_FD; scoped_fd* s; scoped_fd_dtor(s); VERIF_REACH(); }
void h_move_assign(void) { IN_FD; scoped_fd* s; scoped_fd* o; scoped_fd_move_assign(s, o); VERIF_REACH(); }
void h_assign_int(void) { IN_FD; scoped_fd* s; int in_other; scoped_fd_assign_int(s, in_other); VERIF_REACH(); }
void h_to_int(void) { IN_FD; scoped_fd* s; scoped_fd_to_int(s); VERIF_REACH(); }
void h_open(void) { IN_FD; scoped_fd* s; const char* fn; int in_mode; unsigned in_perm; verif_exc = 0; scoped_fd_open(s, fn, in_mode, in_perm); VERIF_REACH(); }
void h_is_open(void) { IN_FD; scoped_fd* s; scoped_fd_is_open(s); VERIF_REACH(); }

/* lifetimes: every descriptor handed to a scoped_fd is closed exactly once by the time all objects are destroyed,
 * whatever moves / reassignments / explicit close() calls happen in between (for the arbitrary ghost descriptor g_fd,
 * and nothing else is closed: g_closes_other counts the other owned descriptors) */
#define OWNED(fd) ((fd) >= 0)
#define IS(fd) ((OWNED(fd) && (fd) == g_fd) ? 1u : 0u)
#define ISNT(fd) ((OWNED(fd) && (fd) != g_fd) ? 1u : 0u)
void l_lifetime_move(void)
{
  int in_gfd, in_a, in_b; g_fd = in_gfd; g_closes = 0; g_closes_other = 0; verif_exc = 0;
  __CPROVER_assume(in_a != in_b || in_a < 0);           /* two different descriptors (or none) */
  scoped_fd x, y, z;
  scoped_fd_ctor_int(&x, in_a);
  scoped_fd_ctor_int(&y, in_b);
  scoped_fd_move_ctor(&z, &x);                          /* z owns a, x empty */
  __CPROVER_assert(x.fd == -1 && z.fd == in_a, "move constructor transfers ownership");
  scoped_fd_move_assign(&y, &z);                        /* b released, y owns a, z empty */
  __CPROVER_assert(g_closes == IS(in_b) && g_closes_other == ISNT(in_b), "move assignment releases the target's descriptor once");
  __CPROVER_assert(z.fd == -1 && y.fd == in_a, "move assignment transfers ownership");
  scoped_fd_dtor(&z); scoped_fd_dtor(&y); scoped_fd_dtor(&x);
  __CPROVER_assert(g_closes == IS(in_a) + IS(in_b), "each owned descriptor closed exactly once");
  __CPROVER_assert(g_closes_other == ISNT(in_a) + ISNT(in_b), "nothing else closed");
  VERIF_REACH();
}
void l_lifetime_assign_close(void)
{
  int in_gfd, in_a, in_b; g_fd = in_gfd; g_closes = 0; g_closes_other = 0; verif_exc = 0;
  __CPROVER_assume(in_a != in_b || in_a < 0);
  scoped_fd x;
  scoped_fd_ctor(&x);
  scoped_fd_assign_int(&x, in_a);
  __CPROVER_assert(g_closes == 0 && g_closes_other == 0, "assigning to an empty object closes nothing");
  scoped_fd_assign_int(&x, in_b);
  __CPROVER_assert(g_closes == IS(in_a) && g_closes_other == ISNT(in_a), "reassignment releases the old descriptor once");
  scoped_fd_close(&x);
  scoped_fd_close(&x);                                  /* idempotent */
  __CPROVER_assert(g_closes == IS(in_a) + IS(in_b) && g_closes_other == ISNT(in_a) + ISNT(in_b), "explicit close() twice closes once");
  scoped_fd_dtor(&x);
  __CPROVER_assert(g_closes == IS(in_a) + IS(in_b) && g_closes_other == ISNT(in_a) + ISNT(in_b), "destructor after close() closes nothing");
  VERIF_REACH();
}
