/* C20: Vector2/3/4<T> and Matrix4<T>, one element type per compilation (-DT=.. -DT_SIGNED=.. -DT_PROMOTES=.. -DT_MIN=..).
 * All function text is x_vec.inc, the struct layouts are x_vec_types.h -- both extracted from src/Vector*.hh on this run. */
#include "contracts/C20_vec.h"
int verif_exc;
#include "x_vec.inc"

/* nondet inputs, copied to the ghosts the contracts' preconditions name (so that a counterexample carries them) */
#define IN_S T in_s[4]; g_s[0] = in_s[0]; g_s[1] = in_s[1]; g_s[2] = in_s[2]; g_s[3] = in_s[3]
#define IN_O T in_o[4]; g_o[0] = in_o[0]; g_o[1] = in_o[1]; g_o[2] = in_o[2]; g_o[3] = in_o[3]
#define IN_T T in_t; g_t = in_t

#define H0(V, n) void h_##V##_##n(void) { V##_##n(); VERIF_REACH(); }
#define HS(V, n) void h_##V##_##n(void) { IN_S; V* a; V##_##n(a); VERIF_REACH(); }
#define HSO(V, n) void h_##V##_##n(void) { IN_S; IN_O; V* a; V* b; V##_##n(a, b); VERIF_REACH(); }
#define HST(V, n) void h_##V##_##n(void) { IN_S; IN_T; V* a; V##_##n(a, in_t); VERIF_REACH(); }
#define HSD(V, n) void h_##V##_##n(void) { IN_S; size_t in_dim; g_dim = in_dim; V* a; V##_##n(a, in_dim); VERIF_REACH(); }
#define COMMON(V) \
  H0(V, make0) H0(V, dimensions) HS(V, neg) HS(V, isz) HS(V, norm1) HS(V, norm2) \
  HSO(V, add) HSO(V, sub) HSO(V, iadd) HSO(V, isub) HSO(V, eq) HSO(V, ne) HSO(V, lt) HSO(V, dot) \
  HST(V, adds) HST(V, subs) HST(V, muls) HST(V, divs) HST(V, mods) \
  HST(V, iadds) HST(V, isubs) HST(V, imuls) HST(V, idivs) HST(V, imods) HSD(V, at)
COMMON(Vector2)
COMMON(Vector3)
COMMON(Vector4)
HSO(Vector3, cross)
void h_Vector2_make(void) { T in_s[4]; Vector2_make(in_s[0], in_s[1]); VERIF_REACH(); }
void h_Vector3_make(void) { T in_s[4]; Vector3_make(in_s[0], in_s[1], in_s[2]); VERIF_REACH(); }
void h_Vector4_make(void) { T in_s[4]; Vector4_make(in_s[0], in_s[1], in_s[2], in_s[3]); VERIF_REACH(); }
void h_Vector3_make_v2(void) { IN_S; IN_T; Vector2* p; Vector3_make_v2(p, in_t); VERIF_REACH(); }
void h_Vector4_make_v2(void) { IN_S; IN_T; T in_w; Vector2* p; Vector4_make_v2(p, in_t, in_w); VERIF_REACH(); }
void h_Vector4_make_v3(void) { IN_S; IN_T; Vector3* p; Vector4_make_v3(p, in_t); VERIF_REACH(); }

/* ---- lemmas over the contracts of operator< / == / != (callees replaced by their contracts):
 *      operator< is a strict weak order consistent with ==                                                      */
#define SETV2(v, a) v.x = a[0]; v.y = a[1]
#define SETV3(v, a) v.x = a[0]; v.y = a[1]; v.z = a[2]
#define SETV4(v, a) v.x = a[0]; v.y = a[1]; v.z = a[2]; v.w = a[3]
#define GS(a, b) (g_s[0] = a[0], g_s[1] = a[1], g_s[2] = a[2], g_s[3] = a[3], g_o[0] = b[0], g_o[1] = b[1], g_o[2] = b[2], g_o[3] = b[3])
#define SAME2(a, b) (a[0] == b[0] && a[1] == b[1])
#define SAME3(a, b) (SAME2(a, b) && a[2] == b[2])
#define SAME4(a, b) (SAME3(a, b) && a[3] == b[3])
#define ORDER(V, SETV, SAME) \
void l_##V##_order(void) { \
  T in_a[4], in_b[4], in_c[4]; V a, b, c; SETV(a, in_a); SETV(b, in_b); SETV(c, in_c); \
  bool ab = (GS(in_a, in_b), V##_lt(&a, &b)); \
  bool ba = (GS(in_b, in_a), V##_lt(&b, &a)); \
  bool bc = (GS(in_b, in_c), V##_lt(&b, &c)); \
  bool cb = (GS(in_c, in_b), V##_lt(&c, &b)); \
  bool ac = (GS(in_a, in_c), V##_lt(&a, &c)); \
  bool ca = (GS(in_c, in_a), V##_lt(&c, &a)); \
  bool eab = (GS(in_a, in_b), V##_eq(&a, &b)); \
  bool nab = (GS(in_a, in_b), V##_ne(&a, &b)); \
  __CPROVER_assert(!(SAME(in_a, in_b)) || !ab, "irreflexive: !(a < a)"); \
  __CPROVER_assert(!ab || !ba, "asymmetric: a < b ==> !(b < a)"); \
  __CPROVER_assert(!(ab && bc) || ac, "transitive: a < b && b < c ==> a < c"); \
  __CPROVER_assert(!(!ab && !ba && !bc && !cb) || (!ac && !ca), "incomparability is transitive"); \
  __CPROVER_assert((!ab && !ba) == eab, "!(a < b) && !(b < a) <=> a == b"); \
  __CPROVER_assert(eab == (SAME(in_a, in_b)), "a == b <=> all components equal"); \
  __CPROVER_assert(nab == !eab, "a != b <=> !(a == b)"); \
  VERIF_REACH(); \
}
ORDER(Vector2, SETV2, SAME2)
ORDER(Vector3, SETV3, SAME3)
ORDER(Vector4, SETV4, SAME4)

/* ---- composition executed on the real text of both functions (no contract replacement): a.dot(a.cross(b)) == 0 and
 *      b.dot(a.cross(b)) == 0 with phosg's own dot().  Stated for element types without undefined overflow (unsigned T):
 *      a.(a x b) = 0 is a polynomial identity, so it holds in Z/2^n.  (Over the *contracts* of cross and dot the same
 *      assertion is not decided: the ensures equalities become hypotheses of an implication, cvc5 no longer normalises the
 *      polynomial and bit-blasting 64-bit multipliers does not terminate; the ensures clause ORTH of Vector3_cross in
 *      contracts/C20_vec.h is the contract-level statement.) */
void l_cross_orthogonal(void) {
  T in_a[4], in_b[4]; Vector3 a, b; SETV3(a, in_a); SETV3(b, in_b);
  Vector3 c = (GS(in_a, in_b), Vector3_cross(&a, &b));
  T cc[4] = { c.x, c.y, c.z, 0 };
  T d1 = (GS(in_a, cc), Vector3_dot(&a, &c));
  T d2 = (GS(in_b, cc), Vector3_dot(&b, &c));
  __CPROVER_assert(d1 == 0, "a . (a x b) == 0");
  __CPROVER_assert(d2 == 0, "b . (a x b) == 0");
  VERIF_REACH();
}
