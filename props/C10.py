"""C10 -- hashes equal their definitions and chain (DESIGN.md section 4, C10)."""
import re

from vf import lex
from vf.extract import Source, Unit
from vf.lex import Rule, ExtractionBreak
from vf.pipeline import Group, Replay

ID = 'C10'
LEVEL = 'proof'

HCC = 'src/Hash.cc'
HHH = 'src/Hash.hh'
ENC = 'src/Encoding.hh'
RP = dict(driver='C10/hash.cc', sources=['src/Hash.cc', 'src/Strings.cc'])

# regex that matches the opening of the single loop of a one-loop function: used to put ghost statements at
# loop-body start (the loop header itself may change without breaking the anchor)
LOOP1 = r'(\bfor\s*\([^{}]*\)\s*)\{'


def ghost_at_loop_start(header_regex, ghost):
    return Rule(header_regex, lambda m: m.group(1) + '{ ' + ghost + ' ', count=1, regex=True)


# ------------------------------------------------------------------------------------------------------------------
# CRC-32, FNV-1a
# ------------------------------------------------------------------------------------------------------------------
def fold_unit(ctx, src):
    u = Unit(ctx, 'Hash_fold')
    u.raw('#include <stdint.h>\n#include <stddef.h>\n')
    table = u.snippet(src, HCC, r'static const uint32_t crc32_table\[0x100\] = \{[^{}]*\};')
    u.raw(table)
    u.functions.append({'file': HCC, 'cxx_header': 'static const uint32_t crc32_table[0x100]', 'c_header': 'static const uint32_t crc32_table[0x100]', 'line': 18})
    # default arguments (the one-argument forms of the property): crc32(.., cs = 0), fnv1a32(.., hash = FNV1A32_START)
    u.raw('#define X_CRC32_DEFAULT_SEED (%s)' % u.snippet(src, HHH, r'uint32_t crc32\(const void\* vdata, size_t size, uint32_t cs = ([^,;()]+)\);', group=1))
    u.raw('#define X_FNV1A32_START (%s)' % u.snippet(src, HHH, r'constexpr uint32_t FNV1A32_START = ([^;]+);', group=1))
    u.raw('#define X_FNV1A64_START (%s)' % u.snippet(src, HHH, r'constexpr uint64_t FNV1A64_START = ([^;]+);', group=1))
    for w in ('32', '64'):
        # both overloads of each width must default to the named constant
        u.snippet(src, HHH, r'uint%s_t fnv1a%s\(const void\* data, size_t size, uint%s_t hash = FNV1A%s_START\);' % (w, w, w, w))
        u.snippet(src, HHH, r'uint%s_t fnv1a%s\(const std::string& data, uint%s_t hash = FNV1A%s_START\);' % (w, w, w, w))
    u.function(src, HCC, r'uint32_t crc32\(const void\* vdata, size_t size, uint32_t cs\)',
               body_prefix=' g_i = 0; ',
               rules=[ghost_at_loop_start(LOOP1,
                      'C10_CRC32_TABLE_ENTRY(g_t, C10_CRC32_INDEX(g_crc, ((const uint8_t*)vdata)[g_i])); '
                      'g_crc = C10_CRC32_UPDATE(g_crc, g_t); g_i++; g_n++;')],
               loops={1: '__CPROVER_assigns(offset, cs, g_crc, g_t, g_i, g_n)\n'
                         '__CPROVER_loop_invariant(offset <= size && g_i == offset && g_n == __CPROVER_loop_entry(g_n) + offset)\n'
                         '__CPROVER_loop_invariant(cs == g_crc)\n'
                         '__CPROVER_decreases(size - offset)'}, nloops=1)
    for w in ('32', '64'):
        u.function(src, HCC, r'uint%s_t fnv1a%s\(const void\* data, size_t size, uint%s_t hash\)' % (w, w, w),
                   body_prefix=' g_i = 0; ',
                   rules=[ghost_at_loop_start(LOOP1,
                          'g_h%s = C10_FNV1A%s_STEP(g_h%s, ((const uint8_t*)data)[g_i]); g_i++; g_n++;' % (w, w, w))],
                   loops={1: '__CPROVER_assigns(data_ptr, hash, g_h%s, g_i, g_n)\n'
                             '__CPROVER_loop_invariant(g_i <= size && data_ptr == ((const uint8_t*)data) + g_i && g_n == __CPROVER_loop_entry(g_n) + g_i)\n'
                             '__CPROVER_loop_invariant(hash == g_h%s)\n'
                             '__CPROVER_decreases(size - g_i)' % (w, w)}, nloops=1)
    return u


def fold_groups(ctx):
    H = 'harness/C10/fold.c'
    gs = []

    def G(name, entry, function, **kw):
        kw.setdefault('replay', Replay(mode=function, **RP))
        g = Group(name=name, harness=H, entry=entry, function=function, **kw)
        gs.append(g)
        return g
    G('Hash.crc32_table.bit-serial-division', 'l_crc32_table', 'crc32', kind='lemma',
      clause_note='crc32_table[i] == RFC 1952 make_crc_table entry i (8 bit-serial steps with 0xedb88320), symbolic i in 0..255')
    G('Hash.crc32', 'h_crc32', 'crc32', enforce='crc32', loops=True, kind='loop-contract', min_post=2,
      clause_note='contracts/C10_fold.h: result == RFC 1952 update_crc(seed, buf, size), spec run advanced in lock-step')
    G('Hash.crc32.default-seed', 'l_crc32_default', 'crc32', replace=['crc32'], kind='lemma')
    G('Hash.crc32.chain', 'l_crc32_chain', 'crc32', replace=['crc32'], kind='lemma', min_post=3,
      clause_note='crc32(b, seed = crc32(a, s)) continues the specification run of a over b: result of a||b')
    for w in ('32', '64'):
        f = 'fnv1a' + w
        g = G('Hash.%s' % f, 'h_' + f, f, enforce=f, loops=True, kind='loop-contract', min_post=2,
              clause_note='contracts/C10_fold.h: result == FNV-1a recurrence hash = (hash ^ octet) * FNV_Prime over the buffer')
        g.first = 'cadical'
        G('Hash.%s.default-seed' % f, 'l_%s_default' % f, f, replace=[f], kind='lemma')
        G('Hash.%s.chain' % f, 'l_%s_chain' % f, f, replace=[f], kind='lemma', min_post=3)
    return gs


def plan(ctx):
    src = Source(ctx.src)
    groups = []
    u = fold_unit(ctx, src)
    u.write()
    ctx.functions_under_contract = list(u.functions)
    groups += fold_groups(ctx)
    return groups


EXPLANATION = ''
TRUSTED = []
ASSUMPTIONS = []
DROPS = ''
NOT_DECIDED = []
CLAIMED = True
MANIFEST = dict(category='proof', text='', note='', technique='')
