/* Side-car contracts for the typed one-liners, one instantiation (wrapper type T) per compilation.
 * -DFN_RD_GET=StringReader_get_u16b etc. name the functions; NAMED_DEC/BITS come from contracts/C03_ce.h for wrapper
 * types and are defined here for the native 8-bit types. WB = encoded width in bytes. */
#ifndef RW_TYPED_H
#define RW_TYPED_H
#include "contracts/RW_writer.h"
#if NATIVE8
#define WB 1
#define BITS(x) ((uint8_t)(x))
#define NAMED_DEC(p) ((uint8_t)MEMB(p, 0))
#define NAMED_IS_BIG 1
#else
#define WB (W / 8)
#endif
/* byte i (in memory order) of the encoding of the bit pattern b in the named byte order */
#if NAMED_IS_BIG
#define NAMED_BYTE(b, i) VBYTE(b, WB - 1 - (i))
#else
#define NAMED_BYTE(b, i) VBYTE(b, i)
#endif

#ifdef FN_RD_GET
ExposedT FN_RD_GET(StringReader* self, bool advance)
RD_REQ(self)
E02(THROWS_OOR(INR(__CPROVER_old(self->offset), WB, self->length)))
E02(verif_exc != 0 ==> self->offset == __CPROVER_old(self->offset))
E02(__CPROVER_old(self->offset) <= self->length ==> self->offset <= self->length)
E01(verif_exc == 0 ==> BITS(__CPROVER_return_value) == NAMED_DEC(self->data + __CPROVER_old(self->offset)))
E01(verif_exc == 0 ==> self->offset == __CPROVER_old(self->offset) + (advance ? WB : 0))
__CPROVER_assigns(verif_exc, self->offset);

ExposedT FN_RD_PGET(const StringReader* self, size_t offset)
RD_REQ(self)
E02(THROWS_OOR(INR(offset, WB, self->length)))
E01(verif_exc == 0 ==> BITS(__CPROVER_return_value) == NAMED_DEC(self->data + offset))
__CPROVER_assigns(verif_exc);
#endif

#ifdef FN_SW_PUT
/* append: size grows by exactly WB, the new bytes are the encoding of v in the named order, older bytes unchanged */
void FN_SW_PUT(StringWriter* self, ExposedT v)
SW_REQ(self) __CPROVER_requires(WB <= self->data.cap - self->data.size)
E02(verif_exc == 0 && self->data.size <= self->data.cap)
E01(self->data.size == __CPROVER_old(self->data.size) + WB)
E01((g_vk >= __CPROVER_old(self->data.size) && g_vk < self->data.size) ==> (uint8_t)self->data.data[g_vk] == NAMED_BYTE(BITS(v), g_vk - __CPROVER_old(self->data.size)))   /* every new byte (ghost index) is the encoding byte */
E01(g_vk < __CPROVER_old(self->data.size) ==> self->data.data[g_vk] == (char)g_vval)
__CPROVER_assigns(self->data.size, __CPROVER_object_whole(self->data.data));

/* positional write: grows (zero-extending) to cover [offset, offset+WB) or throws length_error when it cannot; bytes
 * outside the written range keep their value */
void FN_SW_PPUT(StringWriter* self, size_t offset, ExposedT v)
SW_REQ(self)
E02(INR(offset, WB, self->data.cap) ? verif_exc == 0 : verif_exc == EXC_length_error)
E02(verif_exc == 0 ==> INR(offset, WB, self->data.size))
E02(self->data.size <= self->data.cap)
E01(verif_exc == 0 ==> self->data.size == (offset + WB > __CPROVER_old(self->data.size) ? offset + WB : __CPROVER_old(self->data.size)))
E01((verif_exc == 0 && g_mk < WB) ==> (uint8_t)self->data.data[offset + g_mk] == NAMED_BYTE(BITS(v), g_mk))
E01((verif_exc == 0 && g_vk >= __CPROVER_old(self->data.size) && g_vk < offset) ==> self->data.data[g_vk] == 0)
E01((g_vk < __CPROVER_old(self->data.size) && (verif_exc != 0 || g_vk < offset || g_vk - offset >= WB)) ==> self->data.data[g_vk] == (char)g_vval)
__CPROVER_assigns(verif_exc, self->data.size, __CPROVER_object_whole(self->data.data));
#endif

#ifdef FN_BW_PUT
void FN_BW_PUT(BufferWriter* self, ExposedT v)
BW_REQ(self)
E02(INR(__CPROVER_old(self->offset), WB, self->buf_size) ? verif_exc == 0 : verif_exc == EXC_runtime_error)
E02(verif_exc != 0 ==> self->offset == __CPROVER_old(self->offset))
E02(g_vk < self->buf_size && !(verif_exc == 0 && g_vk >= __CPROVER_old(self->offset) && g_vk - __CPROVER_old(self->offset) < WB) ==> self->buf[g_vk] == g_vval)
E01(verif_exc == 0 ==> self->offset == __CPROVER_old(self->offset) + WB)
E01((verif_exc == 0 && g_mk < WB) ==> self->buf[__CPROVER_old(self->offset) + g_mk] == NAMED_BYTE(BITS(v), g_mk))
__CPROVER_assigns(verif_exc, self->offset, __CPROVER_object_whole(self->buf));

void FN_BW_PPUT(BufferWriter* self, size_t offset, ExposedT v)
BW_REQ(self)
E02(INR(offset, WB, self->buf_size) ? verif_exc == 0 : verif_exc == EXC_runtime_error)
E02(g_vk < self->buf_size && !(verif_exc == 0 && g_vk >= offset && g_vk - offset < WB) ==> self->buf[g_vk] == g_vval)
E01((verif_exc == 0 && g_mk < WB) ==> self->buf[offset + g_mk] == NAMED_BYTE(BITS(v), g_mk))
__CPROVER_assigns(verif_exc, __CPROVER_object_whole(self->buf));
#endif
#endif
