/* lemma: join(SPLITFN(s, d, m), d) == s whenever SPLITFN accepts s (SPLITFN = split or split_context), as an induction over the piece index whose base case and step are proved here over
 * the two CONTRACTS (both calls are replaced by their contracts).  Induction hypothesis for piece j = g_pj: it starts at the
 * same offset in the joined string as in s (g_joff == g_pstart).
 *   base:   piece 0 starts at 0 in both;                     step: then piece j + 1 starts at the same offset in both;
 *   bytes:  then every byte of piece j and the delimiter after it are the bytes of s at the same index;
 *   length: for the last piece the joined string ends where s ends.
 * The vector handed to join is the one split returned: its ghost piece (and the start of the next one) are the recorded slices,
 * all other elements are unconstrained. */
#include <stdlib.h>
#ifndef LEMMA_MAX
#define LEMMA_MAX 0x100000
#endif
void LEMMA_NAME(void) {
  IN_GHOSTS; char in_delim; size_t in_max_splits, in_size, in_cap; verif_exc = 0;
  __CPROVER_assume(in_cap <= LEMMA_MAX && in_size <= in_cap && g_pj <= LEMMA_MAX + 1);
  vstr* s = malloc(sizeof(vstr)); __CPROVER_assume(s != 0);
  s->data = malloc(in_cap); s->size = in_size; s->cap = in_cap; __CPROVER_assume(s->data != 0);
  vvec* pieces = malloc(sizeof(vvec)); __CPROVER_assume(pieces != 0); pieces->size = 0;
  SPLITFN(pieces, s, in_delim, in_max_splits);
  if (verif_exc == 0) {
    size_t n = pieces->size;
    vslice* v = malloc(n * sizeof(vslice)); __CPROVER_assume(v != 0);
    if (g_pj < n) { v[g_pj].start = g_pstart; v[g_pj].len = g_plen; }
    vsvec* items = malloc(sizeof(vsvec)); __CPROVER_assume(items != 0);
    items->v = v; items->n = n; items->src = s;
    g_pjs = g_pstart; g_pjl = g_plen; g_srcd = s->data; g_srcsize = s->size;
    vout* out = malloc(sizeof(vout)); __CPROVER_assume(out != 0); out->size = 0;
    join_delim(out, items, in_delim);
    __CPROVER_assert(n >= 1, "split returns at least one piece");
    __CPROVER_assert(g_pj == 0 ==> g_joff == g_pstart, "base: piece 0 starts at offset 0 of s and of the joined string");
    __CPROVER_assert((g_pj + 1 < n && g_joff == g_pstart) ==> g_joff2 == g_nstart, "step: piece j+1 starts at the same offset in s and in the joined string");
    __CPROVER_assert((g_pj < n && g_joff == g_pstart && g_obase == g_pstart && g_rk < g_plen) ==> g_oval == s->data[g_pstart + g_rk], "bytes: every byte of piece j is the byte of s at the same index");
    __CPROVER_assert((g_pj + 1 < n && g_joff == g_pstart && g_obase == g_pstart + g_plen && g_rk == 0) ==> g_oval == s->data[g_pstart + g_plen], "separator: the delimiter emitted after piece j is the byte of s at that index");
    __CPROVER_assert((g_pj + 1 == n && g_joff == g_pstart) ==> out->size == s->size, "length: the joined string ends where s ends");
  }
  VERIF_REACH();
}
