/* C09 hex dump: the iovec arrays the two read cursors of format_data walk are real (is_fresh) arrays of symbolic length;
 * only the dereference of an element's buffer goes through this contract-only accessor, whose PRECONDITION is the
 * memory-safety obligation of that read (byte offset inside THAT element's buffer; the element read itself is checked by
 * cbmc's pointer checks on the array). Trusted. */
#ifndef C09_IOV_H
#define C09_IOV_H
#include "contracts/verif.h"
struct iovec { const void* iov_base; size_t iov_len; };
extern int verif_exc;
uint8_t c9_iov_byte(const struct iovec* a, size_t i, size_t b)
__CPROVER_requires(b < a[i].iov_len)
__CPROVER_ensures(1)
__CPROVER_assigns();
#endif
