// Native replay for C20 / Matrix4<double>::invert, inverse: driver invert|inverse in_e0=0x<bits> ... in_e15=0x<bits>
// The counterexample matrix (entry k = m[k / 4][k % 4], IEEE bit patterns) is inverted by the REAL code and by a reference
// Gauss-Jordan elimination on [M | I] written here; the results must agree bit for bit (same operations, same order), and the
// "not invertible" error must coincide with a zero pivot.  The verifier's counterexample is over uninterpreted arithmetic, so
// its matrix need not fail under IEEE arithmetic: a second matrix is derived from it (small integers, dominant diagonal), for
// which M * inverse(M) = I within 1e-9 is checked as well.
// exit 1 = mismatch on the real code; 0 = agrees; 2 = not replayable.
#include "replay/common/args.hh"
#include "Vector.hh"
#include <cmath>
#include <stdexcept>
using namespace phosg;

typedef Matrix4<double> M;
static bool ref_gj(M L, M& R) {
  R = M();
  for (size_t p = 0; p < 4; p++) {
    double d = L.m[p][p];
    if (d == 0.0) return false;
    for (size_t c = 0; c < 4; c++) { L.m[c][p] /= d; R.m[c][p] /= d; }
    for (size_t row = 0; row < 4; row++) {
      if (row == p) continue;
      double f = -L.m[p][row];
      if (f == 0) continue;
      for (size_t c = 0; c < 4; c++) { L.m[c][row] += L.m[c][p] * f; R.m[c][row] += R.m[c][p] * f; }
    }
  }
  return true;
}
static bool same(double a, double b) { return memcmp(&a, &b, 8) == 0 || (a != a && b != b); }

static int run(const std::string& mode, const M& in, bool dominant) {
  M want; bool ok = ref_gj(in, want);
  M got = in; bool threw = false;
  try { if (mode == "inverse") got = in.inverse(); else got.invert(); } catch (const std::runtime_error&) { threw = true; }
  printf("matrix %s\n", in.str().c_str());
  RCHECK(threw == !ok, "\"not invertible\" raised: %d, reference elimination meets a zero pivot: %d", (int)threw, (int)!ok);
  if (!ok) return 0;
  for (size_t x = 0; x < 4; x++) for (size_t y = 0; y < 4; y++)
    RCHECK(same(got.m[x][y], want.m[x][y]), "entry m[%zu][%zu] = %.17g, Gauss-Jordan elimination on [M | I] gives %.17g", x, y, got.m[x][y], want.m[x][y]);
  if (dominant) {
    M prod = in * got;
    for (size_t x = 0; x < 4; x++) for (size_t y = 0; y < 4; y++)
      RCHECK(std::fabs(prod.m[x][y] - (x == y ? 1.0 : 0.0)) <= 1e-9, "(M * inverse(M))[%zu][%zu] = %.17g", x, y, prod.m[x][y]);
  }
  return 0;
}

// operator*(Matrix4) / operator*=(Matrix4): the real product against sum_z A.m[z][y] * B.m[x][z] (accumulated from 0, z ascending),
// with the right operand either a separate matrix or the left operand itself
static int product(const std::string& mode, const M& a, const M& b, bool alias) {
  const M& rb = alias ? a : b;
  M want;
  for (size_t x = 0; x < 4; x++) for (size_t y = 0; y < 4; y++) { double v = 0; for (size_t z = 0; z < 4; z++) v += a.m[z][y] * rb.m[x][z]; want.m[x][y] = v; }
  M got = a, ret;
  if (mode == "mulm") { got = alias ? (got * got) : (got * b); ret = got; }
  else if (alias) ret = (got *= got);
  else ret = (got *= b);
  printf("%s, right operand %s\nA = %s\nB = %s\n", mode.c_str(), alias ? "is the left operand itself" : "separate", a.str().c_str(), rb.str().c_str());
  for (size_t x = 0; x < 4; x++) for (size_t y = 0; y < 4; y++) {
    RCHECK(same(got.m[x][y], want.m[x][y]), "product entry m[%zu][%zu] = %.17g, sum_z A.m[z][%zu] * B.m[%zu][z] = %.17g", x, y, got.m[x][y], y, x, want.m[x][y]);
    RCHECK(same(ret.m[x][y], want.m[x][y]), "returned entry m[%zu][%zu] = %.17g, the product entry is %.17g", x, y, ret.m[x][y], want.m[x][y]);
  }
  return 0;
}

int main(int argc, char** argv) {
  Args A(argc, argv);
  M in, dom;
  for (size_t k = 0; k < 16; k++) {
    char name[16]; snprintf(name, sizeof(name), "in_e%zu", k);
    uint64_t bits = A.u(name);
    double d; memcpy(&d, &bits, 8);
    in.m[k / 4][k % 4] = d;
    dom.m[k / 4][k % 4] = (double)((int64_t)((bits ^ (bits >> 17) ^ (k * 2654435761u)) % 7) - 3) + ((k / 4 == k % 4) ? 16.0 : 0.0);
    if (k / 4 != k % 4 && dom.m[k / 4][k % 4] == 0.0) dom.m[k / 4][k % 4] = 1.0;
  }
  if (A.mode == "mulm" || A.mode == "imulm") {
    M b, sa, sb;
    for (size_t k = 0; k < 16; k++) {
      char name[16]; snprintf(name, sizeof(name), "in_f%zu", k);
      uint64_t bits = A.u(name), abits; double d; memcpy(&d, &bits, 8); b.m[k / 4][k % 4] = d;
      memcpy(&abits, &in.m[k / 4][k % 4], 8);
      // small-integer matrices derived from the counterexample (exact arithmetic): the verifier's values are over uninterpreted arithmetic
      sa.m[k / 4][k % 4] = (double)((int64_t)((abits ^ (abits >> 17) ^ (k * 2654435761u)) % 9) - 4);
      sb.m[k / 4][k % 4] = (double)((int64_t)((bits ^ (bits >> 13) ^ (k * 40503u)) % 9) - 4);
      if (sa.m[k / 4][k % 4] == 0.0) sa.m[k / 4][k % 4] = (double)(k % 3 + 1);
    }
    bool alias = A.u("in_alias") != 0;
    if (int r = product(A.mode, in, b, alias)) return r;
    printf("the counterexample matrices agree under IEEE arithmetic; derived small-integer matrices:\n");
    if (int r = product(A.mode, sa, sb, alias)) return r;
    printf("holds on these inputs\n");
    return 0;
  }
  if (A.mode != "invert" && A.mode != "inverse") { fprintf(stderr, "unknown mode\n"); return 2; }
  if (int r = run(A.mode, in, false)) return r;
  printf("the counterexample matrix agrees under IEEE arithmetic; derived diagonally dominant matrix:\n");
  if (int r = run(A.mode, dom, true)) return r;
  // the same well-conditioned matrix at other scales: diagonal dominance (hence invertibility) does not depend on the magnitude of the entries
  for (double scale : {1e-6, 1e-11, 1e-15, 1e+8}) {
    M scaled = dom;
    for (size_t x = 0; x < 4; x++) for (size_t y = 0; y < 4; y++) scaled.m[x][y] *= scale;
    printf("scaled by %g:\n", scale);
    if (int r = run(A.mode, scaled, true)) return r;
  }
  printf("holds on these inputs\n");
  return 0;
}
