"""C03 -- endian-explicit scalars, bswap helpers, sign extension (DESIGN.md section 4, C03)."""
from vf.extract import Source, Unit
from vf.lex import Rule, ExtractionBreak
from vf.pipeline import Group, Replay

ID = 'C03'
LEVEL = 'proof'
EXPLANATION = ('Every function is loop-free; each contract is enforced with goto-instrument --dfcc and bit-blasted over the '
               'whole input domain (2^16 .. 2^128 input combinations per obligation). Involution / round-trip facts are '
               'lemmas proved over the contracts (callee replaced by contract).')
TRUSTED = ['contracts/C03_leaf.h, contracts/C03_ce.h: the specification macros (definition of big/little-endian numerals)']
ASSUMPTIONS = [
    'float/double are IEEE-754 binary32/64 bit patterns (cbmc float model); x87 NaN quieting on return is not modelled',
    'preconditions exclude exactly the inputs on which the native C operator is undefined (signed overflow, shift >= width, '
    'shift of negative values, division by zero, INT_MIN / -1)',
]
DROPS = ('static inline kept; overloads bswap32f/bswap64f renamed by signature (_u2f/_f2u, _u2d/_d2u); template '
         'specialisations bswap<A,R> renamed bswap__A__R; class converted_endian flattened to C functions with explicit self; '
         'implicit conversions at OnStoreSt::fn/OnLoadSt::fn call boundaries preserved by typed C functions')
NOT_DECIDED = []

ENC = 'src/Encoding.hh'
RP = dict(driver='C03/encoding.cc', sources=[])


def leaf_unit(ctx, src):
    u = Unit(ctx, 'Encoding_leaf')
    u.raw('#include <stdint.h>\n#include <stddef.h>\n')
    for name, ret, arg in [('ext24', 'int32_t', 'uint32_t'), ('ext48', 'int64_t', 'uint64_t'),
                           ('bswap8', 'uint8_t', 'uint8_t'), ('bswap16', 'uint16_t', 'uint16_t'),
                           ('bswap24', 'uint32_t', 'uint32_t'), ('bswap24s', 'int32_t', 'int32_t'),
                           ('bswap32', 'uint32_t', 'uint32_t'), ('bswap48', 'uint64_t', 'uint64_t'),
                           ('bswap48s', 'int64_t', 'int64_t'), ('bswap64', 'uint64_t', 'uint64_t')]:
        u.function(src, ENC, r'static inline %s %s\(%s a\)' % (ret, name, arg))
    for name, new, ret, arg in [('bswap32f', 'bswap32f_u2f', 'float', 'uint32_t'), ('bswap64f', 'bswap64f_u2d', 'double', 'uint64_t'),
                                ('bswap32f', 'bswap32f_f2u', 'uint32_t', 'float'), ('bswap64f', 'bswap64f_d2u', 'uint64_t', 'double')]:
        u.function(src, ENC, r'static inline %s %s\(%s a\)' % (ret, name, arg),
                   new_header='static inline %s %s(%s a)' % (ret, new, arg))
    return u


def spec_unit(ctx, src):
    """the explicit specialisations bswap<A,R> -> bswap__A__R"""
    import re
    u = Unit(ctx, 'bswap_spec')
    text = src.text(ENC)
    specs = re.findall(r'template <>\s*inline (\w+) bswap<(\w+)(?:, (\w+))?>\((\w+) v\)', text)
    if len(specs) != 12:
        raise ExtractionBreak('expected 12 explicit bswap<> specialisations, found %d' % len(specs))
    names = []
    for ret, a, r, argt in specs:
        r = r or a
        if argt != a or ret != r:
            raise ExtractionBreak('bswap<%s,%s> has signature %s(%s)' % (a, r, ret, argt))
        rules = []
        if a in ('float', 'double') or r in ('float', 'double'):
            w = '32' if '32' in a + r or 'float' in (a, r) else '64'
            suffix = {('float', 'uint32_t'): '_f2u', ('uint32_t', 'float'): '_u2f',
                      ('double', 'uint64_t'): '_d2u', ('uint64_t', 'double'): '_u2d'}[(a, r)]
            rules = [Rule('bswap%sf(' % w, 'bswap%sf%s(' % (w, suffix), count=1)]
        sig = r'inline %s bswap<%s%s>\(%s v\)' % (ret, a, (', ' + r) if r != a else '', argt)
        u.function(src, ENC, sig, new_header='static inline %s bswap__%s__%s(%s v)' % (r, a, r, a), rules=rules)
        names.append((a, r))
    return u, names


PROMOTE = {'int16_t': 'int', 'uint16_t': 'int', 'int32_t': 'int', 'uint32_t': 'unsigned int', 'int64_t': 'long',
           'uint64_t': 'unsigned long', 'int': 'int'}
TINFO = {'int': (1, True, 'INT_MIN', 'INT_MAX', 32), 'unsigned int': (1, False, '0', 'UINT_MAX', 32),
         'long': (2, True, 'LONG_MIN', 'LONG_MAX', 64), 'unsigned long': (2, False, '0', 'ULONG_MAX', 64)}


def common(a, b):
    a, b = PROMOTE[a], PROMOTE[b]
    if a == b:
        return a
    (ra, sa, *_), (rb, sb, *_) = TINFO[a], TINFO[b]
    if sa == sb:
        return a if ra > rb else b
    un, si = (a, b) if not sa else (b, a)
    if TINFO[un][0] >= TINFO[si][0]:
        return un
    return si     # long can represent every unsigned int


def ce_units(ctx, src):
    """converted_endian members (macro-parameterised .inc), the two policy structs, the class->policy map."""
    import re
    text = src.text(ENC)
    CLS = r'class converted_endian'
    u = Unit(ctx, 'ce_members')
    # layout: exactly one data member, packed
    _, cbody, s, e = __import__('vf.lex', fromlist=['x']).find_def(text, CLS, 'class')
    if len(re.findall(r'\bStoredT value;', cbody)) != 1 or not re.match(r'\s*__attribute__\(\(packed\)\);', text[e:e + 40]):
        raise ExtractionBreak('converted_endian is no longer { StoredT value; } __attribute__((packed))')
    data_members = re.findall(r'^\s*(?:private:|public:)?\s*([A-Za-z_][\w:<> ]*?)\s+(\w+);\s*$', cbody, re.M)
    data_members = [d for d in data_members if not d[0].startswith('return') and d[0] not in ('ExposedT ret',)]
    if [d for d in data_members if d[1] != 'value' and d[0] not in ('return',)]:
        raise ExtractionBreak('converted_endian has additional data members: %r' % data_members)
    ST = [Rule('OnStoreSt::fn(', 'M(onstore)(', count=None), Rule('OnLoadSt::fn(', 'M(onload)(', count=None)]
    # compound assignments written in terms of one another (`return (*this += -delta);`): the member call on *this is lowered to the
    # instantiated C function of that operator (all declared up front)
    OPN = {'+': 'add', '-': 'sub', '*': 'mul', '/': 'div', '%': 'mod', '&': 'and', '|': 'or', '^': 'xor', '<<': 'shl', '>>': 'shr'}
    RET = [Rule(r'\(\s*\*this\s*(<<|>>|[-+*/%&|^])=\s*([^;]*?)\s*\)(?=\s*;)', lambda mo: 'M(%s_assign)(self, %s)' % (OPN[mo.group(1)], mo.group(2)), count=None, regex=True),
           Rule(r'\*this\s*(<<|>>|[-+*/%&|^])=\s*([^;]*?)\s*;', lambda mo: 'M(%s_assign)(self, %s);' % (OPN[mo.group(1)], mo.group(2)), count=None, regex=True),
           Rule('return *this;', 'return self;', count=None)]
    ctor_expr = u.snippet(src, ENC, r'converted_endian\(ExposedT v\)\s*:\s*value\((.*?)\)\s*\{\s*\}', group=1, rules=ST)
    u.raw('void M(ctor)(CE* self, ExposedT v)\n{\n  self->value = %s;\n}' % ctor_expr)
    u.functions.append({'file': ENC, 'cxx_header': 'converted_endian(ExposedT v) : value(...) {}', 'c_header': 'void M(ctor)(CE* self, ExposedT v)', 'line': 0})
    mem = [
        (r'operator ExposedT\(\) const', 'ExposedT M(conv)(const CE* self)', []),
        (r'void store\(ExposedT v\)', 'void M(store)(CE* self, ExposedT v)', []),
        (r'ExposedT load\(\) const', 'ExposedT M(load)(const CE* self)', []),
        (r'void store_raw\(StoredT v\)', 'void M(store_raw)(CE* self, StoredT v)', []),
        (r'StoredT load_raw\(\) const', 'StoredT M(load_raw)(const CE* self)', []),
        (r'converted_endian& operator=\(ExposedT v\)', 'CE* M(assign)(CE* self, ExposedT v)', RET),
        (r'ExposedT operator\+\+\(\)', 'ExposedT M(preinc)(CE* self)', []),
        (r'ExposedT operator--\(\)', 'ExposedT M(predec)(CE* self)', []),
        (r'ExposedT operator\+\+\(int\)', 'ExposedT M(postinc)(CE* self)', []),
        (r'ExposedT operator--\(int\)', 'ExposedT M(postdec)(CE* self)', []),
    ]
    # members written in terms of other members (e.g. postfix ++ as `this->operator++() - 1`, `this->store(this->load() + 1)`):
    # member calls are lowered to the instantiated C functions, which are declared up front
    u.raw(''.join(h + ';\n' for _, h, _ in mem))
    CALLS = [Rule(r'self->operator\+\+\(\s*\)', 'M(preinc)(self)', count=None, regex=True),
             Rule(r'self->operator--\(\s*\)', 'M(predec)(self)', count=None, regex=True),
             Rule(r'self->operator\+\+\(\s*0\s*\)', 'M(postinc)(self)', count=None, regex=True),
             Rule(r'self->operator--\(\s*0\s*\)', 'M(postdec)(self)', count=None, regex=True),
             Rule(r'self->(load|load_raw)\(\s*\)', r'M(\1)(self)', count=None, regex=True),
             Rule(r'self->(store|store_raw)\(', r'M(\1)(self, ', count=None, regex=True)]
    ST = ST + CALLS
    for sig, hdr, rules in mem:
        u.function(src, ENC, sig, new_header=hdr, rules=ST + rules, scope=CLS)
    ops = [('+', 'add'), ('-', 'sub'), ('*', 'mul'), ('/', 'div')]
    iops = [('%', 'mod'), ('&', 'and'), ('|', 'or'), ('^', 'xor'), ('<<', 'shl'), ('>>', 'shr')]
    u.raw(''.join('CE* M(%s_assign)(CE* self, R delta);\n' % nm for _, nm in ops) + '#if !ISFLOAT\n' +
          ''.join('CE* M(%s_assign)(CE* self, R delta);\n' % nm for _, nm in iops) + '#endif')
    for op, nm in ops:
        u.function(src, ENC, r'converted_endian& operator%s=\(R delta\)' % re.escape(op),
                   new_header='CE* M(%s_assign)(CE* self, R delta)' % nm, rules=ST + RET, scope=CLS)
    u.raw('#if !ISFLOAT')
    for op, nm in iops:
        u.function(src, ENC, r'converted_endian& operator%s=\(R delta\)' % re.escape(op),
                   new_header='CE* M(%s_assign)(CE* self, R delta)' % nm, rules=ST + RET, scope=CLS)
    u.raw('#endif')
    # every member function of the class must have been taken (a new operator would otherwise go unverified)
    n_members = len(re.findall(r'\)\s*(?:const\s*)?\{', __import__('vf.lex', fromlist=['x']).mask(cbody)))
    if n_members != len(mem) + len(ops) + len(iops) + 1:
        raise ExtractionBreak('converted_endian has %d member definitions, the table covers %d'
                              % (n_members, len(mem) + len(ops) + len(iops) + 1))
    u.write(suffix='.inc')
    # policy structs
    ub = Unit(ctx, 'bswap_st')
    ub.function(src, ENC, r'static inline ResultT fn\(ArgT v\)', scope=r'struct bswap_st',
                new_header='static inline ResultT ST_FN(ArgT v)',
                rules=[Rule('bswap<ArgT, ResultT>(v)', 'BSWAP_SPEC(ArgT, ResultT)(v)', count=1)])
    ub.write(suffix='.inc')
    ui = Unit(ctx, 'ident_st')
    ui.function(src, ENC, r'static inline ResultT fn\(ArgT v\)', scope=r'struct ident_st',
                new_header='static inline ResultT ST_FN(ArgT v)')
    ui.write(suffix='.inc')
    # host-order selection, verbatim preprocessor text of Platform.hh
    up = Unit(ctx, 'platform')
    up.raw(up.snippet(src, 'src/Platform.hh', r'#if defined\(__BYTE_ORDER__\) && \(__BYTE_ORDER__ == __ORDER_LITTLE_ENDIAN__\).*?\n#endif'))
    up.write(suffix='.h', scan=False)
    # class -> base / policy map
    mo = re.search(r'#ifdef PHOSG_LITTLE_ENDIAN(.*?)#elif defined\(PHOSG_BIG_ENDIAN\)(.*?)#else', text, re.S)
    if not mo:
        raise ExtractionBreak('host byte-order #ifdef in Encoding.hh not found')
    lines = []
    for cond, part in (('#if defined(PHOSG_LITTLE_ENDIAN)', mo.group(1)), ('#elif defined(PHOSG_BIG_ENDIAN)', mo.group(2))):
        pairs = re.findall(r'class (\w+) : public (\w+)<ExposedT, StoredT>', part)
        if sorted(p[0] for p in pairs) != ['big_endian', 'little_endian']:
            raise ExtractionBreak('unexpected classes in byte-order #ifdef: %r' % pairs)
        lines.append(cond)
        for c, b in pairs:
            lines.append('#define BASE_%s %s' % (c, b))
    lines.append('#else\n#error "No endianness define exists"\n#endif')
    pol = re.findall(r'class (reverse_endian|same_endian)\s*:\s*public converted_endian<ExposedT, StoredT, (\w+)<ExposedT, StoredT>, (\w+)<StoredT, ExposedT>>', text)
    if sorted(p[0] for p in pol) != ['reverse_endian', 'same_endian']:
        raise ExtractionBreak('reverse_endian/same_endian base clauses not found')
    for c, st, ld in pol:
        lines.append('#define BASE_%s %s' % (c, c))
        lines.append('#define STORE_INC_%s "x_%s.inc"' % (c, st))
        lines.append('#define LOAD_INC_%s "x_%s.inc"' % (c, ld))
    um = Unit(ctx, 'ce_map')
    um.raw('\n'.join(lines))
    um.write(suffix='.h', scan=False)
    aliases = re.findall(r'using (\w+) = (reverse_endian|little_endian|big_endian)<(\w+)(?:, (\w+))?>;', text)
    if len(aliases) != 24:
        raise ExtractionBreak('expected 24 endian scalar aliases, found %d' % len(aliases))
    return u, ub, ui, aliases


def ce_groups(ctx, aliases):
    groups = []
    H = 'harness/C03/ce.c'
    for name, cls, ex, st in aliases:
        st = st or ex
        isf = ex in ('float', 'double')
        w = {'uint16_t': 16, 'int16_t': 16, 'uint32_t': 32, 'int32_t': 32, 'float': 32, 'uint64_t': 64, 'int64_t': 64, 'double': 64}[ex]
        named = {'big_endian': 1, 'little_endian': 2, 'reverse_endian': 3}[cls]
        base = ['CE=' + name, 'CLS=' + cls, 'ExposedT=' + ex, 'StoredT=' + st, 'W=%d' % w, 'NAMED=%d' % named, 'ISFLOAT=%d' % isf]
        if not isf:
            pl = PROMOTE[ex]
            p1 = common(ex, 'int')
            base += ['PL=' + pl, 'PL_SIGNED=%d' % TINFO[pl][1], 'PL_BITS=%d' % TINFO[pl][4], 'PL_MAX=' + TINFO[pl][3],
                     'P1=' + p1, 'P1_SIGNED=%d' % TINFO[p1][1], 'P1_MIN=' + TINFO[p1][2], 'P1_MAX=' + TINFO[p1][3]]
        rp = dict(driver='C03/ce.cc', sources=[])

        def G(member, r=None, kind='loop-free', enforce=True, replace=None, heavy=False):
            d = list(base)
            rn = ''
            if r:
                d.append('R=' + r)
                rn = '[R=%s]' % r
                if not isf:
                    c = common(ex, r)
                    d += ['COMMON=' + c, 'COMMON_SIGNED=%d' % TINFO[c][1], 'COMMON_MIN=' + TINFO[c][2]]
            elif not isf:
                d += ['R=int', 'COMMON=int', 'COMMON_SIGNED=1', 'COMMON_MIN=INT_MIN']
            else:
                d += ['R=' + ex]
            g = Group(name='Encoding.converted_endian[%s].%s%s' % (name, member, rn), harness=H,
                      entry=('h_' if enforce else 'l_') + member, function='%s::%s' % (name, member),
                      enforce=(name + '_' + member) if enforce else None, replace=replace or [], defines=d, kind=kind,
                      clause_note='contracts/C03_ce.h: stored bytes in the named order and returned value equal the native operator',
                      replay=Replay(mode=member, extra=[name, r or '-'], **rp))
            if heavy:
                g.first = 'cvc5'
                g.stage1 = 20
                g.timeout = 300
            elif isf:
                # pure bit moves through float-typed variables: the SMT floating-point theory (cvc5/z3 back ends) has a
                # single NaN and cannot express bit-exactness, so only the bit-precise SAT back ends may answer
                g.engines = ['minisat', 'cadical']
                g.stage1 = 30
                g.timeout = 300
            groups.append(g)
        groups.append(Group(name='Encoding.converted_endian[%s].layout' % name, harness=H, entry='h_layout',
                            function=name, defines=base + ['R=int', 'COMMON=int', 'COMMON_SIGNED=1', 'COMMON_MIN=INT_MIN'] if not isf else base + ['R=' + ex],
                            kind='lemma', min_post=2))
        for m in ['ctor', 'conv', 'store', 'load', 'store_raw', 'load_raw', 'assign']:
            G(m)
        for m in ['preinc', 'predec', 'postinc', 'postdec']:
            G(m, heavy=isf)
        G('roundtrip', kind='lemma', enforce=False, replace=[name + '_store', name + '_load'])
        rs = [ex] if isf else [ex, 'int']
        for r in rs:
            for m in ['add_assign', 'sub_assign', 'mul_assign', 'div_assign']:
                G(m, r, heavy=(isf or m in ('mul_assign', 'div_assign')))
            if not isf:
                for m in ['mod_assign', 'and_assign', 'or_assign', 'xor_assign', 'shl_assign', 'shr_assign']:
                    G(m, r, heavy=(m == 'mod_assign'))
    return groups


def plan(ctx):
    src = Source(ctx.src)
    groups = []
    u = leaf_unit(ctx, src)
    u.write()
    ctx.functions_under_contract = list(u.functions)
    H = 'harness/C03/leaf.c'
    for fn in ['ext24', 'ext48', 'bswap8', 'bswap16', 'bswap24', 'bswap24s', 'bswap32', 'bswap48', 'bswap48s', 'bswap64',
               'bswap32f_u2f', 'bswap32f_f2u', 'bswap64f_u2d', 'bswap64f_d2u']:
        groups.append(Group(name='Encoding.' + fn, harness=H, entry='h_' + fn, function=fn, enforce=fn,
                            clause_note='contracts/C03_leaf.h: byte k of the result is byte n-1-k of the argument; high bits zero / sign copies',
                            replay=Replay(mode=fn, **RP)))
    for fn in ['bswap8', 'bswap16', 'bswap24', 'bswap32', 'bswap48', 'bswap64', 'bswap24s', 'bswap48s']:
        groups.append(Group(name='Encoding.%s.involution' % fn, harness=H, entry='l_%s_involution' % fn, function=fn,
                            replace=[fn], kind='lemma', replay=Replay(mode=fn + '_involution', **RP)))
    groups.append(Group(name='Encoding.bswap32f.roundtrip', harness=H, entry='l_bswap32f_roundtrip', function='bswap32f',
                        replace=['bswap32f_u2f', 'bswap32f_f2u'], kind='lemma', replay=Replay(mode='bswap32f_roundtrip', **RP)))
    groups.append(Group(name='Encoding.bswap64f.roundtrip', harness=H, entry='l_bswap64f_roundtrip', function='bswap64f',
                        replace=['bswap64f_u2d', 'bswap64f_d2u'], kind='lemma', replay=Replay(mode='bswap64f_roundtrip', **RP)))
    us, names = spec_unit(ctx, src)
    us.write()
    ctx.functions_under_contract += us.functions
    for a, r in names:
        fn = 'bswap__%s__%s' % (a, r)
        groups.append(Group(name='Encoding.bswap<%s,%s>' % (a, r), harness='harness/C03/spec.c', entry='h_' + fn,
                            function='bswap<%s,%s>' % (a, r), enforce=fn,
                            replay=Replay(mode='bswap_spec', extra=[a, r], **RP)))
    use = Unit(ctx, 'sign_extend')
    use.function(src, ENC, r'ResultT sign_extend\(SrcT src\)', new_header='ResultT SE_NAME(SrcT src)',
                 rules=[])     # `using UResultT = std::make_unsigned_t<ResultT>;` becomes a typedef by the generic rewrites
    use.write(suffix='.inc')
    ctx.functions_under_contract += use.functions
    widths = {8: ('uint8_t', 'int8_t'), 16: ('uint16_t', 'int16_t'), 32: ('uint32_t', 'int32_t'), 64: ('uint64_t', 'int64_t')}
    for sw in (8, 16, 32):
        for ssign in (0, 1):
            for rw in (16, 32, 64):
                if rw <= sw:
                    continue
                for rsign in (0, 1):
                    S, R = widths[sw][ssign], widths[rw][rsign]
                    g = Group(name='Encoding.sign_extend<%s,%s>' % (R, S), harness='harness/C03/sign_extend.c', entry='h_sign_extend',
                              function='sign_extend<%s,%s>' % (R, S), enforce='sign_extend_%s_%s' % (R, S),
                              defines=['ResultT=' + R, 'SrcT=' + S, 'SPEC_UR=' + widths[rw][0], 'SR=' + widths[rw][1],
                                       'SS=' + widths[sw][1], 'US=' + widths[sw][0], 'SE_NAME=sign_extend_%s_%s' % (R, S)],
                              clause_note='result == (signed ResultT)(signed SrcT)src, low bits preserved',
                              replay=Replay(mode='sign_extend', extra=[R, S], **RP))
                    if sw == 32:
                        # `1 << 31` is well defined in C++20 (the language of the real code) but flagged as signed overflow
                        # by the C front end: that check is switched off for the 32-bit source instantiations only
                        from vf.pipeline import DEFAULT_CHECKS
                        g.checks = [c for c in DEFAULT_CHECKS if c != '--signed-overflow-check'] + ['--no-signed-overflow-check']
                    groups.append(g)
    um, ub, ui, aliases = ce_units(ctx, src)
    ctx.functions_under_contract += um.functions + ub.functions + ui.functions
    groups += ce_groups(ctx, aliases)
    # the alias table itself: the groups above verify each alias as the instantiation the table gives it; that this instantiation is
    # the one the alias NAME promises (re_int64_t = reverse_endian<int64_t>, le_float = little_endian<float, uint32_t> ...) is a static
    # fact of the header, reported like an obligation
    wrong = []
    for name, cls, ex, st in aliases:
        want_cls = {'be': 'big_endian', 'le': 'little_endian', 're': 'reverse_endian'}.get(name.split('_', 1)[0])
        want_ex = name.split('_', 1)[1] if '_' in name else ''
        want_st = {'float': 'uint32_t', 'double': 'uint64_t'}.get(want_ex, '')
        if cls != want_cls or ex != want_ex or (st or '') != want_st:
            wrong.append('%s = %s<%s%s>' % (name, cls, ex, ', ' + st if st else ''))
    ua = Unit(ctx, 'alias_names')
    ua.raw('#define C03_ALIASES_ARE_WHAT_THEIR_NAMES_SAY %d\n#define C03_ALIAS_FINDING "%s"' % (0 if wrong else 1, '; '.join(wrong)[:400]))
    ua.write(suffix='.h', scan=False)
    groups.append(Group(name='Encoding.aliases[static]', harness='harness/C03/aliases.c', entry='h_aliases', kind='loop-free', min_post=1,
                        function='the 24 using-declarations be_/le_/re_<type> of src/Encoding.hh',
                        clause_note='alias name = byte-order class + exposed type (float/double stored as uint32_t/uint64_t)',
                        replay=Replay(driver='C03/ce.cc', sources=[], mode='alias_names')))
    if ctx.tier == 'thorough':
        be = []
        for g in groups:
            import copy
            g2 = copy.deepcopy(g)
            g2.big_endian = True
            be.append(g2)
        groups += be
    return groups

CLAIMED = True
MANIFEST = dict(
    category='proof',
    text=('Every leaf helper (ext24/48, bswap8..64, float forms, the 12 bswap<> specialisations, sign_extend for all 24 narrower->wider '
          'type pairs) and every member of converted_endian for all 24 wrapper types x {R = ExposedT, int} is put under a function contract '
          'and discharged by cbmc over the full input domain (loop-free code, so each discharged obligation is a complete proof for all 2^16..2^128 '
          'inputs); thorough repeats everything under a big-endian host model. Involutions and load(store(v)) are lemmas proved over the contracts.'),
    note=('Trusted: cbmc/goto-instrument, the answering SAT/SMT solver, the extractor (text is cut from /repo/src each run; must-fire rules), the '
          'spec macros in contracts/C03_*.h. Float arithmetic results are compared bit-exactly except that a NaN result only has to be a NaN '
          '(payload not pinned; SMT FP theory has one NaN). Preconditions exclude inputs on which the native C operator is undefined. '
          'sizeof/alignment facts are proved on the C mirror struct and static_asserted on the real class in the replay driver.'),
    technique='function contracts (requires/ensures/assigns) enforced with goto-instrument --dfcc, discharged by cbmc (SAT/SMT portfolio), full-domain loop-free proofs',
)
