/* C06: Windows bitmap -- specification macros (written from the BMP format definition: BITMAPFILEHEADER, BITMAPINFOHEADER /
 * BITMAPV4HEADER / BITMAPV5HEADER, wingdi.h) and the contracts of the extracted blocks of Image::load / Image::save_helper.
 *
 * Format facts used:
 *   - pixel array starts at bfOffBits; rows are stored in FILE ORDER, each padded to a multiple of 4 bytes:
 *     stride = ((width * bytes_per_pixel + 3) / 4) * 4
 *   - biHeight > 0: bottom-up (file row 0 is the LAST image row); biHeight < 0: top-down (file row r is image row r)
 *   - BI_RGB (0), 24 bpp: bytes B,G,R per pixel; 32 bpp: bytes B,G,R,unused
 *   - BI_BITFIELDS (3), 32 bpp: pixel = little-endian DWORD; channel value = (DWORD & mask) >> shift; for a byte mask the
 *     channel is the byte number log2(mask)/8 of the pixel's 4 bytes
 *   - file: 14-byte file header ('BM', bfSize = size of the file, 2 reserved words, bfOffBits), info header
 *     (biSize = 40 | 108 | 124, biWidth, biHeight, biPlanes = 1, biBitCount, biCompression, biSizeImage, ...), V4+: 4 masks
 * Class Image keeps 8-bit R,G,B[,A] per pixel in row-major top-down order.
 */
#ifndef C06_BMP_H
#define C06_BMP_H
#include "stubs/C06_io.h"
#include "x_image_types.h"

#ifndef C06_DIM
#define C06_DIM 8
#endif
#ifndef C06_DEPTH
#define C06_DEPTH 32
#endif
#define C06_BI_RGB 0u
#define C06_BI_BITFIELDS 3u
#define C06_STRIDE(w, pb) ((((size_t)(w) * (size_t)(pb)) + 3) & ~(size_t)3)
/* file row that holds image row y */
#define C06_FROW(y, h, topdown) ((topdown) ? (size_t)(y) : (size_t)(h) - 1 - (size_t)(y))
#define C06_IS_BYTE_MASK(m) ((m) == 0xFFu || (m) == 0xFF00u || (m) == 0xFF0000u || (m) == 0xFF000000u)
#define C06_MASK_BYTE(m) ((m) == 0xFFu ? 0u : (m) == 0xFF00u ? 1u : (m) == 0xFF0000u ? 2u : 3u)
/* position of channel c (0 = R, 1 = G, 2 = B[, 3 = A]) inside the pixel's bytes */
#define C06_RGB_CHAN_BYTE(c) (2 - (size_t)(c))
#define C06_SEL4(c, r, g, b, a) ((c) == 0 ? (r) : (c) == 1 ? (g) : (c) == 2 ? (b) : (a))

/* ghosts: one channel of one pixel of the image (symbolic => every channel of every pixel) */
size_t g_x, g_y, g_c;
size_t g_fr;    /* file row of image row g_y */
size_t g_in;    /* byte offset of that channel inside its file row */
size_t g_oidx;  /* index of that channel in the Image buffer */
size_t g_w, g_h; /* image dimensions (ghost copies, so that a counterexample carries them) */

/* ------------------------------------------------------------------------------------------------------------------
 * loader, BI_RGB block:   if (header.info_header.compression == 0) { ... }
 * ------------------------------------------------------------------------------------------------------------------ */
#define C06_LOAD_REQ(PB, C)                                                                              \
  __CPROVER_requires(__CPROVER_is_fresh(has_alpha_out, sizeof(bool)))                                    \
  __CPROVER_requires(__CPROVER_is_fresh(new_data_unique, sizeof(void*)))                                 \
  __CPROVER_requires(verif_exc == 0 && g_fpos == 0 && g_reads == 0)                                      \
  __CPROVER_requires(1 <= w && w <= C06_DIM && 1 <= h && h <= C06_DIM)                                   \
  __CPROVER_requires(g_x < (size_t)w && g_y < (size_t)h && g_c < (C))                                    \
  __CPROVER_requires(g_fr == C06_FROW(g_y, h, reverse_row_order))                                        \
  __CPROVER_requires(g_oidx == (g_y * (size_t)w + g_x) * (C) + g_c)                                      \
  __CPROVER_requires(g_bk == g_fr * C06_STRIDE(w, PB) + g_in)                                            \
  __CPROVER_assigns(verif_exc, g_fpos, g_reads, *has_alpha_out, *new_data_unique)

void Image_load_bmp_rgb(FILE* f, uint16_t bit_depth, int32_t w, int32_t h, bool reverse_row_order, bool* has_alpha_out, void** new_data_unique)
C06_LOAD_REQ(bit_depth / 8, 3)
__CPROVER_requires(bit_depth == C06_DEPTH)
__CPROVER_requires(g_in == g_x * (bit_depth / 8) + C06_RGB_CHAN_BYTE(g_c))
/* a truncated file is rejected with io_error; nothing else is thrown for a supported header */
__CPROVER_ensures(verif_exc == 0 || verif_exc == EXC_io_error)
/* success: all rows including padding consumed, 3 bytes per pixel delivered, no alpha */
__CPROVER_ensures(verif_exc == 0 ==> (g_fpos == (size_t)h * C06_STRIDE(w, bit_depth / 8) && g_reads == (size_t)h))
__CPROVER_ensures(verif_exc == 0 ==> *has_alpha_out == 0)
__CPROVER_ensures(verif_exc == 0 ==> __CPROVER_is_fresh(*new_data_unique, (size_t)w * (size_t)h * 3))
/* success: every channel of every pixel is the byte the format defines */
__CPROVER_ensures(verif_exc == 0 ==> ((const uint8_t*)*new_data_unique)[g_oidx] == g_bv);

/* loop invariants of the two row loops (shared by both loader blocks); PB = bytes per pixel in the file, C = channels in memory */
#define C06_LOAD_OUTER_INV(PB, C)                                                                        \
  (-1 <= y && y < h && verif_exc == 0 && g_reads == (size_t)(h - 1 - y) &&                               \
   g_fpos == (size_t)(h - 1 - y) * C06_STRIDE(w, PB) &&                                                  \
   (g_fr < (size_t)(h - 1 - y) ==> new_data[g_oidx] == g_bv))
#define C06_LOAD_INNER_INV(PB, C)                                                                        \
  (0 <= x && x <= w &&                                                                                   \
   ((g_fr < (size_t)(h - 1 - y) || (g_fr == (size_t)(h - 1 - y) && g_x < (size_t)x)) ==> new_data[g_oidx] == g_bv))

/* ------------------------------------------------------------------------------------------------------------------
 * loader, BI_BITFIELDS block:   else if (header.info_header.compression == 3) { ... }
 * ------------------------------------------------------------------------------------------------------------------ */
#define C06_MASKS_OK (C06_IS_BYTE_MASK(bitmask_r) && C06_IS_BYTE_MASK(bitmask_g) && C06_IS_BYTE_MASK(bitmask_b) && C06_IS_BYTE_MASK(bitmask_a))
void Image_load_bmp_bitfields(FILE* f, uint16_t bit_depth, uint32_t bitmask_r, uint32_t bitmask_g, uint32_t bitmask_b, uint32_t bitmask_a,
                              int32_t w, int32_t h, bool reverse_row_order, bool* has_alpha_out, void** new_data_unique)
C06_LOAD_REQ(4, 4)
__CPROVER_requires(bit_depth == 32)
__CPROVER_requires(g_in == g_x * 4 + C06_MASK_BYTE(C06_SEL4(g_c, bitmask_r, bitmask_g, bitmask_b, bitmask_a)))
__CPROVER_ensures(verif_exc == 0 || verif_exc == EXC_io_error || verif_exc == EXC_runtime_error)
/* masks that are not whole bytes are rejected, byte masks in any arrangement are accepted */
__CPROVER_ensures((verif_exc == EXC_runtime_error) == !C06_MASKS_OK)
__CPROVER_ensures(verif_exc == 0 ==> (g_fpos == (size_t)h * (size_t)w * 4 && g_reads == (size_t)h))
__CPROVER_ensures(verif_exc == 0 ==> *has_alpha_out == 1)
__CPROVER_ensures(verif_exc == 0 ==> __CPROVER_is_fresh(*new_data_unique, (size_t)w * (size_t)h * 4))
__CPROVER_ensures(verif_exc == 0 ==> ((const uint8_t*)*new_data_unique)[g_oidx] == g_bv);

/* ------------------------------------------------------------------------------------------------------------------
 * saver: the `case Format::WINDOWS_BITMAP: { ... }` block of Image::save_helper (with init_bmp_header inlined).
 * The header fields are those an independent decoder reads from the first emitted bytes (stubs/C06_io.h, g_h_*).
 * ------------------------------------------------------------------------------------------------------------------ */
#ifdef C06_SAVE
uint8_t g_pv;   /* value of the ghost channel in the Image buffer */
#define C06_HDR(alpha) ((size_t)14 + ((alpha) ? (size_t)124 : (size_t)40))
#define C06_PB(alpha) ((size_t)3 + (size_t)(alpha))
/* the symbolic output position g_wk is the place where the format (with the masks the file itself declares) puts the ghost channel */
#define C06_SAVE_POS_MATCH(alpha, w)                                                                     \
  (g_wk == C06_HDR(alpha) + g_fr * C06_STRIDE(w, C06_PB(alpha)) + g_x * C06_PB(alpha) +                  \
           ((alpha) ? (size_t)C06_MASK_BYTE(C06_SEL4(g_c, g_h_mask_r, g_h_mask_g, g_h_mask_b, g_h_mask_a)) : C06_RGB_CHAN_BYTE(g_c)))
#define C06_SAVE_SEEN (g_wseen && g_wv == g_pv)
#define C06_DISTINCT4(a, b, c, d) ((a) != (b) && (a) != (c) && (a) != (d) && (b) != (c) && (b) != (d) && (c) != (d))

void Image_save_bmp(const Image* self)
__CPROVER_requires(__CPROVER_is_fresh(self, sizeof(Image)))
__CPROVER_requires(1 <= self->width && self->width <= C06_DIM && 1 <= self->height && self->height <= C06_DIM && self->has_alpha == C06_ALPHA)
__CPROVER_requires(g_w == (size_t)self->width && g_h == (size_t)self->height)
__CPROVER_requires(__CPROVER_is_fresh(self->data.raw, (size_t)self->width * (size_t)self->height * C06_PB(C06_ALPHA)))
__CPROVER_requires(verif_exc == 0 && g_wpos == 0 && g_wcalls == 0 && !g_wseen)
__CPROVER_requires(g_x < (size_t)self->width && g_y < (size_t)self->height && g_c < C06_PB(C06_ALPHA))
__CPROVER_requires(g_fr == C06_FROW(g_y, self->height, 0))
__CPROVER_requires(g_oidx == (g_y * (size_t)self->width + g_x) * C06_PB(C06_ALPHA) + g_c)
__CPROVER_requires(self->channel_width != 8 || g_pv == ((const uint8_t*)self->data.raw)[g_oidx])
__CPROVER_assigns(verif_exc, g_wpos, g_wcalls, g_first_size, g_wv, g_wseen)
__CPROVER_assigns(g_h_magic, g_h_file_size, g_h_data_offset, g_h_info_size, g_h_planes, g_h_depth, g_h_comp, g_h_image_size, g_h_width, g_h_height)
__CPROVER_assigns(g_h_mask_r, g_h_mask_g, g_h_mask_b, g_h_mask_a)
/* BMP holds 8-bit channels only */
__CPROVER_ensures((verif_exc == EXC_runtime_error) == (self->channel_width != 8))
__CPROVER_ensures(verif_exc == 0 || verif_exc == EXC_runtime_error)
/* bytes emitted: headers + h rows, every row a multiple of 4 bytes */
__CPROVER_ensures(verif_exc == 0 ==> (g_first_size == C06_HDR(C06_ALPHA) && g_wpos == C06_HDR(C06_ALPHA) + (size_t)self->height * C06_STRIDE(self->width, C06_PB(C06_ALPHA))))
/* header fields as an independent decoder reads them */
__CPROVER_ensures(verif_exc == 0 ==> (g_h_magic == 0x4D42 && g_h_file_size == g_wpos && g_h_data_offset == g_first_size && g_h_info_size == g_first_size - 14))
__CPROVER_ensures(verif_exc == 0 ==> (g_h_width == self->width && g_h_height == self->height && g_h_planes == 1))
__CPROVER_ensures(verif_exc == 0 ==> (g_h_depth == 8 * C06_PB(C06_ALPHA) && g_h_comp == (C06_ALPHA ? C06_BI_BITFIELDS : C06_BI_RGB)))
__CPROVER_ensures(verif_exc == 0 ==> (g_h_image_size == 0 || g_h_image_size == (size_t)self->height * C06_STRIDE(self->width, C06_PB(C06_ALPHA))))
__CPROVER_ensures((verif_exc == 0 && C06_ALPHA) ==> (C06_IS_BYTE_MASK(g_h_mask_r) && C06_IS_BYTE_MASK(g_h_mask_g) && C06_IS_BYTE_MASK(g_h_mask_b) &&
                                                      C06_IS_BYTE_MASK(g_h_mask_a) && C06_DISTINCT4(g_h_mask_r, g_h_mask_g, g_h_mask_b, g_h_mask_a)))
/* every channel of every pixel is emitted at the position the format defines (bottom-up rows, padding, BGR / declared masks) */
__CPROVER_ensures((verif_exc == 0 && C06_SAVE_POS_MATCH(C06_ALPHA, self->width)) ==> C06_SAVE_SEEN);

/* rows emitted so far: h-1-y; the ghost channel has been emitted iff its file row is among them */
#define C06_SAVE_OUTER_INV                                                                               \
  (-1 <= y && y < self->height && verif_exc == 0 && g_wcalls >= 1 && g_wcalls <= 1 + 2 * (size_t)(self->height - 1 - y) &&                                     \
   g_wpos == C06_HDR(C06_ALPHA) + (size_t)(self->height - 1 - y) * C06_STRIDE(self->width, C06_PB(C06_ALPHA)) && \
   ((g_fr < (size_t)(self->height - 1 - y) && C06_SAVE_POS_MATCH(C06_ALPHA, self->width)) ==> C06_SAVE_SEEN))
#define C06_SAVE_INNER_INV                                                                               \
  (0 <= x && x <= self->width * 3 && x % 3 == 0 &&                                                       \
   ((g_fr == (size_t)(self->height - 1 - y) && g_x * 3 < (size_t)x) ==> row_data[g_x * 3 + C06_RGB_CHAN_BYTE(g_c)] == g_pv))
#endif

/* ------------------------------------------------------------------------------------------------------------------
 * loader, header part: statements from `WindowsBitmapHeader header = {};` up to the allocation of the pixel buffer.
 * ------------------------------------------------------------------------------------------------------------------ */
#ifdef C06_HEADER
#include "x_bmp_types.h"
uint32_t g_hsize;    /* biSize as delivered by the file (ghost copy taken right after it was read) */
void Image_load_bmp_header(FILE* f, const char* sig, WindowsBitmapHeader* out_header, int32_t* out_w, int32_t* out_h, bool* out_rev)
__CPROVER_requires(__CPROVER_is_fresh(sig, 2))
__CPROVER_requires(__CPROVER_is_fresh(out_header, sizeof(WindowsBitmapHeader)))
__CPROVER_requires(__CPROVER_is_fresh(out_w, sizeof(int32_t)))
__CPROVER_requires(__CPROVER_is_fresh(out_h, sizeof(int32_t)))
__CPROVER_requires(__CPROVER_is_fresh(out_rev, sizeof(bool)))
__CPROVER_requires(sig[0] == 'B' && sig[1] == 'M' && verif_exc == 0 && g_fpos == 0)
__CPROVER_assigns(verif_exc, g_fpos, g_reads, g_hsize, g_seek_to, *out_header, *out_w, *out_h, *out_rev)
__CPROVER_ensures(verif_exc == 0 || verif_exc == EXC_io_error || verif_exc == EXC_runtime_error)
/* accepted headers: BITMAPINFOHEADER (40) .. BITMAPV5HEADER (124) with 24/32 bpp, one plane; exactly the header bytes were consumed */
__CPROVER_ensures(verif_exc == 0 ==> (out_header->file_header.magic == 0x4D42 && out_header->info_header.header_size == g_hsize &&
                                      40 <= g_hsize && g_hsize <= 124 && g_fpos == (size_t)12 + g_hsize))
__CPROVER_ensures(verif_exc == 0 ==> ((out_header->info_header.bit_depth == 24 || out_header->info_header.bit_depth == 32) && out_header->info_header.num_planes == 1))
/* negative biHeight = top-down; the stream is positioned on bfOffBits */
__CPROVER_ensures(verif_exc == 0 ==> (*out_w == out_header->info_header.width && *out_rev == (out_header->info_header.height < 0) &&
                                      g_seek_to == out_header->file_header.data_offset))
/* (biHeight == INT32_MIN has no absolute value in 32 bits: outside the property's range of dimensions, not decided) */
__CPROVER_ensures((verif_exc == 0 && out_header->info_header.height != INT32_MIN) ==>
                  (int64_t)*out_h == (out_header->info_header.height < 0 ? -(int64_t)out_header->info_header.height : (int64_t)out_header->info_header.height));
#endif

#endif
